import ScnrVerif.Model.Iter
import ScnrVerif.Model.SpecFind
import ScnrVerif.Model.SpecIter
/-!
# Line-protocol driver for the executable model (`lake exe scnr_model < case.in`)

One command per line; commands that have an observable result print exactly one line. The Rust
harness prints the results of the real crate for the same command lines in the same format.
-/
open Scnr

inductive Target where
  | none
  | mode (m : Nat)
  | la (m : Nat) (tid : Nat)

/-- Independent specification state of an iterator: mode, cursor and the largest consumed offset.
    `known = false` after an operation whose effect the properties leave open. -/
structure SpecIt where
  mode : Nat := 0
  pos : Nat := 0
  frontier : Nat := 0
  known : Bool := true
deriving Inhabited

structure DState where
  tables : Array (List (Nat × Nat)) := #[]
  modes : Array ModeDfa := #[]
  cfg : Array ModeCfg := #[]
  target : Target := .none
  input : List Nat := []
  useTable : Bool := false
  /-- per mode: byte position ↦ (tid, len) -/
  table : Array (Array (Option (Nat × Nat))) := #[]
  iters : Array Iter := #[]
  specs : Array SpecIt := #[]
  /-- the last command line (for spec verdicts on the real result that follows as `expect`) -/
  last : List String := []

def emptyDfa : Dfa := ⟨[], [], []⟩

def nats (ws : List String) : List Nat := ws.filterMap String.toNat?

def pairs : List Nat → List (Nat × Nat)
  | a :: b :: r => (a, b) :: pairs r
  | _ => []

def ensure {α} (a : Array α) (n : Nat) (d : α) : Array α :=
  if a.size ≤ n then a ++ Array.replicate (n + 1 - a.size) d else a

def DState.cm (st : DState) : Nat → Nat → Bool :=
  let T := st.tables
  fun id c => inRanges (T.getD id []) c

def DState.finder (st : DState) : Finder :=
  if st.useTable then
    let total := bytesLen st.input
    fun m w => (st.table.getD m #[]).getD (total - bytesLen w) none
  else modelFinder st.modes.toList st.cm

def DState.cfgL (st : DState) : List ModeCfg := st.cfg.toList

def addState (A : Dfa) (isEnd : Bool) (tid : Nat) (tr : List (Nat × Nat)) : Dfa :=
  { A with trans := A.trans ++ [tr], ends := A.ends ++ [(isEnd, tid)] }

def updTarget (st : DState) (f : Dfa → Dfa) : DState :=
  match st.target with
  | .none => st
  | .mode m =>
    let ms := ensure st.modes m ⟨emptyDfa, []⟩
    { st with modes := ms.modify m fun M => { M with dfa := f M.dfa } }
  | .la m tid =>
    let ms := ensure st.modes m ⟨emptyDfa, []⟩
    { st with modes := ms.modify m fun M =>
        { M with las := M.las.map fun p => if p.1 = tid then (p.1, { p.2 with dfa := f p.2.dfa }) else p } }

def showToks (ms : List Tok) : String :=
  " ".intercalate (ms.map fun t => s!"{t.tid}:{t.start}:{t.stop}")

def boundaries (w : List Nat) : List (Nat × List Nat) :=
  let rec go (p : Nat) : List Nat → List (Nat × List Nat)
    | [] => [(p, [])]
    | c :: r => (p, c :: r) :: go (p + utf8Len c) r
  go 0 w

/-- parse `p:tid:len` or `p:-` -/
def parseFindItem (s : String) : Option (Nat × Option (Nat × Nat)) :=
  match s.splitOn ":" with
  | [p, "-"] => p.toNat?.map fun p => (p, none)
  | [p, t, l] =>
    match p.toNat?, t.toNat?, l.toNat? with
    | some p, some t, some l => some (p, some (t, l))
    | _, _, _ => none
  | _ => none

def parseTok (s : String) : Option Tok :=
  match (s.splitOn ":").map String.toNat? with
  | [some t, some a, some b] => some ⟨t, a, b⟩
  | _ => none

def parsePeek (ws : List String) : Option Peek :=
  match ws with
  | "peek" :: "matches" :: r => some (.matches (r.filterMap parseTok))
  | "peek" :: "end" :: r => some (.reachedEnd (r.filterMap parseTok))
  | "peek" :: "switch" :: m :: r => m.toNat?.map fun m => .modeSwitch (r.filterMap parseTok) m
  | ["peek", "notfound"] => some .notFound
  | _ => none

/-- Verdict of the executable specification on the result of the real crate (`expect` line)
    for the command that preceded it; also advances the specification state of the iterator. -/
def specVerdict (st : DState) (real : List String) : Array SpecIt × Option String :=
  let sp := st.specs
  let total := bytesLen st.input
  let specTokens (s : SpecIt) : List Tok :=
    scanFrom st.cfgL st.finder s.mode (dropBytes s.pos st.input) s.pos
  match st.last, real with
  | _, ["panic"] => (sp, some "S FAIL the real crate panicked in this call")
  | _, ["findpanic"] => (sp, some "S FAIL the real crate panicked in find_from")
  | _, ["buildpanic"] => (sp, some "S FAIL the real crate panicked while building the scanner")
  | _, ["runaway"] => (sp, some "S FAIL the real iterator yields more tokens than the input has characters")
  | ["findall", m], "findall" :: items =>
    (sp, match m.toNat? with
    | none => none
    | some m =>
      match st.modes[m]? with
      | none => some "S FAIL findall: no such mode"
      | some M =>
        let bs := boundaries st.input
        let parsed := items.filterMap parseFindItem
        if parsed.length != bs.length then some "S FAIL findall: wrong number of positions" else
        let bad := (bs.zip parsed).filter fun ((p, w), (q, r)) =>
          p != q || !(specFindOK M st.cm 0 w (r.map fun (t, l) => (t, l)))
        match bad with
        | [] => some "S ok"
        | ((p, _), (_, r)) :: _ =>
          some s!"S FAIL findall mode {m} at byte {p}: real result {r} is not the best candidate of the trailing-context rule")
  | ["findall", _], _ => (sp, some "S FAIL findall: real crate panicked or gave no table")
  | ["modename", i], _ =>
    (sp, match i.toNat? with
      | some i =>
        let exp := match modeName st.cfgL i with
          | some n => "name" :: n.map toString
          | none => ["name", "none"]
        some (if real == exp then "S ok" else "S FAIL mode_name")
      | none => none)
  | [op, k], _ =>
    match k.toNat? with
    | none => (sp, none)
    | some k =>
      let s := sp.getD k default
      if op == "next" || op == "nextp" then
        if !s.known then
          -- no verdict; resynchronise cursor and mode on the real result
          match real with
          | [_, t, _, e] | [_, t, _, e, _, _, _, _] =>
            match t.toNat?, e.toNat? with
            | some t, some e =>
              (sp.set! k { s with pos := e, known := true, frontier := s.frontier,
                                  mode := (hasTransition (modeTrans st.cfgL s.mode) t).getD s.mode }, none)
            | _, _ => (sp, none)
          | ["none"] => (sp.set! k { s with pos := total, known := true }, none)
          | _ => (sp, none)
        else
        let exp := specTokens s
        match real, exp with
        | ["none"], [] =>
          (sp.set! k { s with pos := total, frontier := if s.pos ≤ s.frontier then total else s.frontier }, some "S ok")
        | "tok" :: r, t :: _ =>
          let ok := r.map String.toNat? == [some t.tid, some t.start, some t.stop]
          let s' := { s with pos := t.stop,
                             frontier := if s.pos ≤ s.frontier then max s.frontier t.stop else s.frontier,
                             mode := (hasTransition (modeTrans st.cfgL s.mode) t.tid).getD s.mode }
          (sp.set! k s', some (if ok then "S ok" else s!"S FAIL next: expected token {t.tid} {t.start} {t.stop} of the reference scan from byte {s.pos} in mode {s.mode}"))
        | "tokp" :: r, t :: _ =>
          let ns := r.map String.toNat?
          let s' := { s with pos := t.stop,
                             frontier := if s.pos ≤ s.frontier then max s.frontier t.stop else s.frontier,
                             mode := (hasTransition (modeTrans st.cfgL s.mode) t.tid).getD s.mode }
          let judge := decide (t.stop ≤ s'.frontier)
          match ns with
          | [some a, some b, some c, some l1, some c1, some l2, some c2] =>
            if (a, b, c) != (t.tid, t.start, t.stop) then
              (sp.set! k s', some s!"S FAIL next: expected token {t.tid} {t.start} {t.stop} of the reference scan from byte {s.pos} in mode {s.mode}")
            else if !judge then (sp.set! k s', some "S ok")
            else if !positionOK st.input b true (l1, c1) then
              (sp.set! k s', some s!"S FAIL position of token start {b}: reported {l1}:{c1}, true {(trueLineCol st.input b).1}:{(trueLineCol st.input b).2}")
            else if !positionOK st.input c false (l2, c2) then
              (sp.set! k s', some s!"S FAIL position of token end {c}: reported {l2}:{c2}, true {(trueLineCol st.input c).1}:{(trueLineCol st.input c).2}")
            else (sp.set! k s', some "S ok")
          | _ => (sp.set! k s', some "S FAIL next: malformed result")
        | _, [] => (sp, some s!"S FAIL next: real result {real} but the reference scan from byte {s.pos} in mode {s.mode} has no more tokens")
        | _, t :: _ => (sp, some s!"S FAIL next: real result {real}, expected token {t.tid} {t.start} {t.stop}")
      else if op == "curmode" then
        if !s.known then (sp, none) else
        (sp, some (if real == ["mode", toString s.mode] then "S ok" else s!"S FAIL current_mode: expected {s.mode}"))
      else (sp, none)
  | ["peek", k, n], _ =>
    match k.toNat?, n.toNat? with
    | some k, some n =>
      let s := sp.getD k default
      if !s.known then (sp, none) else
      let exp := peekSpec st.cfgL st.finder s.mode (dropBytes s.pos st.input) s.pos n
      (sp, some (if parsePeek real == some exp then "S ok"
                 else s!"S FAIL peek_n({n}) at byte {s.pos} in mode {s.mode}: real {real} differs from the next tokens of the reference scan"))
    | _, _ => (sp, none)
  | ["pos", k, o], ["pos", l, c] =>
    match k.toNat?, o.toNat?, l.toNat?, c.toNat? with
    | some k, some o, some l, some c =>
      let s := sp.getD k default
      if o > s.frontier then (sp, none) else
      (sp, some (if positionOK st.input o (decide (o < s.frontier)) (l, c) then "S ok"
                 else s!"S FAIL position({o}): reported {l}:{c}, true {(trueLineCol st.input o).1}:{(trueLineCol st.input o).2} (frontier {s.frontier})"))
    | _, _, _, _ => (sp, none)
  | _, _ => (sp, none)

/-- Effect of a command on the specification state (commands without observable result). -/
def specCommand (st : DState) (ws : List String) : Array SpecIt :=
  let sp := st.specs
  let total := bytesLen st.input
  match ws with
  | ["new", k] =>
    match k.toNat? with
    | some k => (ensure sp k default).set! k {}
    | none => sp
  | ["setoff", k, o] =>
    match k.toNat?, o.toNat? with
    | some k, some o =>
      let s := sp.getD k default
      sp.set! k { s with pos := min o total, known := true }
    | _, _ => sp
  | ["setmode", k, m] =>
    match k.toNat?, m.toNat? with
    | some k, some m => sp.set! k { sp.getD k default with mode := m }
    | _, _ => sp
  | ["adv", k, p] =>
    match k.toNat?, p.toNat? with
    | some k, some p =>
      let s := sp.getD k default
      -- specified only for a position beyond the cursor on a character boundary (C10)
      if s.known && p > s.pos && p ≤ total && isBoundary st.input p then
        sp.set! k { s with pos := p, frontier := if s.pos ≤ s.frontier then max s.frontier p else s.frontier }
      else sp.set! k { s with known := false }
    | _, _ => sp
  | _ => sp

def step (st : DState) (line : String) : DState × Option String :=
  match line.trimAscii.toString.splitOn " " with
  | "case" :: r => (st, some ("case " ++ " ".intercalate r))
  | "expect" :: r =>
    let (sp, v) := specVerdict st r
    ({ st with specs := sp }, v)
  | "#" :: _ => (st, none)
  | ["scanner"] => ({}, none)
  | "class" :: id :: r =>
    match id.toNat? with
    | some i => ({ st with tables := (ensure st.tables i []).set! i (pairs (nats r)) }, none)
    | none => (st, some "bad-op")
  | "mode" :: m :: r =>
    match m.toNat? with
    | some i =>
      let c := ensure st.cfg i ⟨[], []⟩
      ({ st with cfg := c.modify i fun x => { x with trans := pairs (nats r) },
                 modes := ensure st.modes i ⟨emptyDfa, []⟩ }, none)
    | none => (st, some "bad-op")
  | "name" :: m :: r =>
    match m.toNat? with
    | some i =>
      let c := ensure st.cfg i ⟨[], []⟩
      ({ st with cfg := c.modify i fun x => { x with name := nats r } }, none)
    | none => (st, some "bad-op")
  | ["dfa", "m", m] =>
    match m.toNat? with
    | some i => ({ st with target := .mode i, modes := ensure st.modes i ⟨emptyDfa, []⟩ }, none)
    | none => (st, some "bad-op")
  | ["dfa", "la", m, tid, pos] =>
    match m.toNat?, tid.toNat?, pos.toNat? with
    | some i, some t, some p =>
      let ms := ensure st.modes i ⟨emptyDfa, []⟩
      ({ st with target := .la i t,
                 modes := ms.modify i fun M => { M with las := M.las ++ [(t, ⟨p != 0, emptyDfa⟩)] } }, none)
    | _, _, _ => (st, some "bad-op")
  | "prio" :: r => (updTarget st fun A => { A with prio := nats r }, none)
  | "st" :: e :: t :: r =>
    match e.toNat?, t.toNat? with
    | some e, some t => (updTarget st fun A => addState A (e != 0) t (pairs (nats r)), none)
    | _, _ => (st, some "bad-op")
  | "input" :: r => ({ st with input := nats r, iters := #[], specs := #[], table := #[] }, none)
  | ["finder", "model"] => ({ st with useTable := false }, none)
  | ["finder", "table"] => ({ st with useTable := true }, none)
  | ["tbl", m, p, t, l] =>
    match m.toNat?, p.toNat?, t.toNat?, l.toNat? with
    | some m, some p, some t, some l =>
      let tb := ensure st.table m #[]
      ({ st with table := tb.modify m fun a => (ensure a p none).set! p (some (t, l)) }, none)
    | _, _, _, _ => (st, some "bad-op")
  | ["wf"] =>
    let ok := st.modes.all fun M => M.dfa.wf && M.las.all fun p => p.2.dfa.wf
    (st, some s!"wf {if ok then 1 else 0}")
  | ["findall", m] =>
    match m.toNat? with
    | some m =>
      let f := st.finder
      let outs := (boundaries st.input).map fun (p, w) =>
        match f m w with
        | some (t, l) => s!"{p}:{t}:{l}"
        | none => s!"{p}:-"
      (st, some ("findall " ++ " ".intercalate outs))
    | none => (st, some "bad-op")
  | ["new", k] =>
    match k.toNat? with
    | some k => ({ st with iters := (ensure st.iters k (Iter.new [])).set! k (Iter.new st.input) }, none)
    | none => (st, some "bad-op")
  | ["next", k] =>
    match k.toNat? with
    | some k =>
      let (it, r) := (st.iters.getD k default).next st.cfgL st.finder
      ({ st with iters := st.iters.set! k it },
        some (match r with | some t => s!"tok {t.tid} {t.start} {t.stop}" | none => "none"))
    | none => (st, some "bad-op")
  | ["nextp", k] =>
    match k.toNat? with
    | some k =>
      let (it, r) := (st.iters.getD k default).nextWithPos st.cfgL st.finder
      ({ st with iters := st.iters.set! k it },
        some (match r with
          | some (t, (l1, c1), (l2, c2)) => s!"tokp {t.tid} {t.start} {t.stop} {l1} {c1} {l2} {c2}"
          | none => "none"))
    | none => (st, some "bad-op")
  | ["peek", k, n] =>
    match k.toNat?, n.toNat? with
    | some k, some n =>
      let r := (st.iters.getD k default).peekN st.cfgL st.finder n
      (st, some (match r with
        | .matches ms => "peek matches " ++ showToks ms
        | .reachedEnd ms => "peek end " ++ showToks ms
        | .modeSwitch ms m => s!"peek switch {m} " ++ showToks ms
        | .notFound => "peek notfound"))
    | _, _ => (st, some "bad-op")
  | ["adv", k, p] =>
    match k.toNat?, p.toNat? with
    | some k, some p =>
      let it := st.iters.getD k default
      ({ st with iters := st.iters.set! k (it.advanceTo p) }, some s!"adv {it.advanceToRet p}")
    | _, _ => (st, some "bad-op")
  | ["setoff", k, o] =>
    match k.toNat?, o.toNat? with
    | some k, some o =>
      ({ st with iters := st.iters.set! k ((st.iters.getD k default).setOffset o) }, none)
    | _, _ => (st, some "bad-op")
  | ["setmode", k, m] =>
    match k.toNat?, m.toNat? with
    | some k, some m =>
      ({ st with iters := st.iters.set! k ((st.iters.getD k default).setMode m) }, none)
    | _, _ => (st, some "bad-op")
  | ["curmode", k] =>
    match k.toNat? with
    | some k => (st, some s!"mode {(st.iters.getD k default).mode}")
    | none => (st, some "bad-op")
  | ["modename", i] =>
    match i.toNat? with
    | some i =>
      (st, some (match modeName st.cfgL i with
        | some n => "name " ++ " ".intercalate (n.map toString)
        | none => "name none"))
    | none => (st, some "bad-op")
  | ["off", k] =>
    match k.toNat? with
    | some k => (st, some s!"off {(st.iters.getD k default).totalOffset}")
    | none => (st, some "bad-op")
  | ["pos", k, o] =>
    match k.toNat?, o.toNat? with
    | some k, some o =>
      let (l, c) := (st.iters.getD k default).position o
      (st, some s!"pos {l} {c}")
    | _, _ => (st, some "bad-op")
  | [""] => (st, none)
  | _ => (st, some "bad-op")

partial def loop (h : IO.FS.Stream) (out : IO.FS.Stream) (st : DState) : IO Unit := do
  let line ← h.getLine
  if line.isEmpty then return ()
  let (st', o) := step st line
  match o with
  | some s => out.putStrLn s
  | none => pure ()
  let ws := line.trimAscii.toString.splitOn " "
  let st' := match ws with
    | "expect" :: _ => st'
    | "#" :: _ => st'
    | _ => { st' with last := ws, specs := specCommand st' ws }
  loop h out st'

def main : IO Unit := do
  let out ← IO.getStdout
  loop (← IO.getStdin) out {}
