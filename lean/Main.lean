import ScnrVerif.Model.Iter
import ScnrVerif.Model.SpecFind
/-!
# Line-protocol driver for the executable model (`lake exe scnr_model < case.in`)

One command per line; commands that have an observable result print exactly one line. The Rust
harness prints the results of the real crate for the same command lines in the same format.
-/
open Scnr

inductive Target where
  | none
  | mode (m : Nat)
  | la (m : Nat) (tid : Nat)

structure DState where
  tables : Array (List (Nat × Nat)) := #[]
  modes : Array ModeDfa := #[]
  cfg : Array ModeCfg := #[]
  target : Target := .none
  input : List Nat := []
  useTable : Bool := false
  /-- per mode: byte position ↦ (tid, len) -/
  table : Array (Array (Option (Nat × Nat))) := #[]
  iters : Array Iter := #[]
  /-- the last command line (for spec verdicts on the real result that follows as `expect`) -/
  last : List String := []

def emptyDfa : Dfa := ⟨[], [], []⟩

def nats (ws : List String) : List Nat := ws.filterMap String.toNat?

def pairs : List Nat → List (Nat × Nat)
  | a :: b :: r => (a, b) :: pairs r
  | _ => []

def ensure {α} (a : Array α) (n : Nat) (d : α) : Array α :=
  if a.size ≤ n then a ++ Array.replicate (n + 1 - a.size) d else a

def DState.cm (st : DState) : Nat → Nat → Bool :=
  let T := st.tables
  fun id c => inRanges (T.getD id []) c

def DState.finder (st : DState) : Finder :=
  if st.useTable then
    let total := bytesLen st.input
    fun m w => (st.table.getD m #[]).getD (total - bytesLen w) none
  else modelFinder st.modes.toList st.cm

def DState.cfgL (st : DState) : List ModeCfg := st.cfg.toList

def addState (A : Dfa) (isEnd : Bool) (tid : Nat) (tr : List (Nat × Nat)) : Dfa :=
  { A with trans := A.trans ++ [tr], ends := A.ends ++ [(isEnd, tid)] }

def updTarget (st : DState) (f : Dfa → Dfa) : DState :=
  match st.target with
  | .none => st
  | .mode m =>
    let ms := ensure st.modes m ⟨emptyDfa, []⟩
    { st with modes := ms.modify m fun M => { M with dfa := f M.dfa } }
  | .la m tid =>
    let ms := ensure st.modes m ⟨emptyDfa, []⟩
    { st with modes := ms.modify m fun M =>
        { M with las := M.las.map fun p => if p.1 = tid then (p.1, { p.2 with dfa := f p.2.dfa }) else p } }

def showToks (ms : List Tok) : String :=
  " ".intercalate (ms.map fun t => s!"{t.tid}:{t.start}:{t.stop}")

def boundaries (w : List Nat) : List (Nat × List Nat) :=
  let rec go (p : Nat) : List Nat → List (Nat × List Nat)
    | [] => [(p, [])]
    | c :: r => (p, c :: r) :: go (p + utf8Len c) r
  go 0 w

/-- parse `p:tid:len` or `p:-` -/
def parseFindItem (s : String) : Option (Nat × Option (Nat × Nat)) :=
  match s.splitOn ":" with
  | [p, "-"] => p.toNat?.map fun p => (p, none)
  | [p, t, l] =>
    match p.toNat?, t.toNat?, l.toNat? with
    | some p, some t, some l => some (p, some (t, l))
    | _, _, _ => none
  | _ => none

/-- Verdict of the executable specification on the result of the real crate (`expect` line)
    for the command that preceded it. -/
def specVerdict (st : DState) (real : List String) : Option String :=
  match st.last, real with
  | ["findall", m], "findall" :: items =>
    match m.toNat? with
    | none => none
    | some m =>
      match st.modes[m]? with
      | none => some "S FAIL findall: no such mode"
      | some M =>
        let bs := boundaries st.input
        let parsed := items.filterMap parseFindItem
        if parsed.length != bs.length then some "S FAIL findall: wrong number of positions" else
        let bad := (bs.zip parsed).filter fun ((p, w), (q, r)) =>
          p != q || !(specFindOK M st.cm 0 w (r.map fun (t, l) => (t, l)))
        match bad with
        | [] => some "S ok"
        | ((p, _), (_, r)) :: _ =>
          some s!"S FAIL findall mode {m} at byte {p}: real result {r} is not the best candidate of the trailing-context rule"
  | ["findall", _], _ => some "S FAIL findall: real crate panicked or gave no table"
  | _, _ => none

def step (st : DState) (line : String) : DState × Option String :=
  match line.trimAscii.toString.splitOn " " with
  | "case" :: r => (st, some ("case " ++ " ".intercalate r))
  | "expect" :: r => (st, specVerdict st r)
  | "#" :: _ => (st, none)
  | ["scanner"] => ({}, none)
  | "class" :: id :: r =>
    match id.toNat? with
    | some i => ({ st with tables := (ensure st.tables i []).set! i (pairs (nats r)) }, none)
    | none => (st, some "bad-op")
  | "mode" :: m :: r =>
    match m.toNat? with
    | some i =>
      let c := ensure st.cfg i ⟨[], []⟩
      ({ st with cfg := c.modify i fun x => { x with trans := pairs (nats r) },
                 modes := ensure st.modes i ⟨emptyDfa, []⟩ }, none)
    | none => (st, some "bad-op")
  | "name" :: m :: r =>
    match m.toNat? with
    | some i =>
      let c := ensure st.cfg i ⟨[], []⟩
      ({ st with cfg := c.modify i fun x => { x with name := nats r } }, none)
    | none => (st, some "bad-op")
  | ["dfa", "m", m] =>
    match m.toNat? with
    | some i => ({ st with target := .mode i, modes := ensure st.modes i ⟨emptyDfa, []⟩ }, none)
    | none => (st, some "bad-op")
  | ["dfa", "la", m, tid, pos] =>
    match m.toNat?, tid.toNat?, pos.toNat? with
    | some i, some t, some p =>
      let ms := ensure st.modes i ⟨emptyDfa, []⟩
      ({ st with target := .la i t,
                 modes := ms.modify i fun M => { M with las := M.las ++ [(t, ⟨p != 0, emptyDfa⟩)] } }, none)
    | _, _, _ => (st, some "bad-op")
  | "prio" :: r => (updTarget st fun A => { A with prio := nats r }, none)
  | "st" :: e :: t :: r =>
    match e.toNat?, t.toNat? with
    | some e, some t => (updTarget st fun A => addState A (e != 0) t (pairs (nats r)), none)
    | _, _ => (st, some "bad-op")
  | "input" :: r => ({ st with input := nats r, iters := #[], table := #[] }, none)
  | ["finder", "model"] => ({ st with useTable := false }, none)
  | ["finder", "table"] => ({ st with useTable := true }, none)
  | ["tbl", m, p, t, l] =>
    match m.toNat?, p.toNat?, t.toNat?, l.toNat? with
    | some m, some p, some t, some l =>
      let tb := ensure st.table m #[]
      ({ st with table := tb.modify m fun a => (ensure a p none).set! p (some (t, l)) }, none)
    | _, _, _, _ => (st, some "bad-op")
  | ["wf"] =>
    let ok := st.modes.all fun M => M.dfa.wf && M.las.all fun p => p.2.dfa.wf
    (st, some s!"wf {if ok then 1 else 0}")
  | ["findall", m] =>
    match m.toNat? with
    | some m =>
      let f := st.finder
      let outs := (boundaries st.input).map fun (p, w) =>
        match f m w with
        | some (t, l) => s!"{p}:{t}:{l}"
        | none => s!"{p}:-"
      (st, some ("findall " ++ " ".intercalate outs))
    | none => (st, some "bad-op")
  | ["new", k] =>
    match k.toNat? with
    | some k => ({ st with iters := (ensure st.iters k (Iter.new [])).set! k (Iter.new st.input) }, none)
    | none => (st, some "bad-op")
  | ["next", k] =>
    match k.toNat? with
    | some k =>
      let (it, r) := (st.iters.getD k default).next st.cfgL st.finder
      ({ st with iters := st.iters.set! k it },
        some (match r with | some t => s!"tok {t.tid} {t.start} {t.stop}" | none => "none"))
    | none => (st, some "bad-op")
  | ["nextp", k] =>
    match k.toNat? with
    | some k =>
      let (it, r) := (st.iters.getD k default).nextWithPos st.cfgL st.finder
      ({ st with iters := st.iters.set! k it },
        some (match r with
          | some (t, (l1, c1), (l2, c2)) => s!"tokp {t.tid} {t.start} {t.stop} {l1} {c1} {l2} {c2}"
          | none => "none"))
    | none => (st, some "bad-op")
  | ["peek", k, n] =>
    match k.toNat?, n.toNat? with
    | some k, some n =>
      let r := (st.iters.getD k default).peekN st.cfgL st.finder n
      (st, some (match r with
        | .matches ms => "peek matches " ++ showToks ms
        | .reachedEnd ms => "peek end " ++ showToks ms
        | .modeSwitch ms m => s!"peek switch {m} " ++ showToks ms
        | .notFound => "peek notfound"))
    | _, _ => (st, some "bad-op")
  | ["adv", k, p] =>
    match k.toNat?, p.toNat? with
    | some k, some p =>
      let it := st.iters.getD k default
      ({ st with iters := st.iters.set! k (it.advanceTo p) }, some s!"adv {it.advanceToRet p}")
    | _, _ => (st, some "bad-op")
  | ["setoff", k, o] =>
    match k.toNat?, o.toNat? with
    | some k, some o =>
      ({ st with iters := st.iters.set! k ((st.iters.getD k default).setOffset o) }, none)
    | _, _ => (st, some "bad-op")
  | ["setmode", k, m] =>
    match k.toNat?, m.toNat? with
    | some k, some m =>
      ({ st with iters := st.iters.set! k ((st.iters.getD k default).setMode m) }, none)
    | _, _ => (st, some "bad-op")
  | ["curmode", k] =>
    match k.toNat? with
    | some k => (st, some s!"mode {(st.iters.getD k default).mode}")
    | none => (st, some "bad-op")
  | ["modename", i] =>
    match i.toNat? with
    | some i =>
      (st, some (match modeName st.cfgL i with
        | some n => "name " ++ " ".intercalate (n.map toString)
        | none => "name none"))
    | none => (st, some "bad-op")
  | ["off", k] =>
    match k.toNat? with
    | some k => (st, some s!"off {(st.iters.getD k default).totalOffset}")
    | none => (st, some "bad-op")
  | ["pos", k, o] =>
    match k.toNat?, o.toNat? with
    | some k, some o =>
      let (l, c) := (st.iters.getD k default).position o
      (st, some s!"pos {l} {c}")
    | _, _ => (st, some "bad-op")
  | [""] => (st, none)
  | _ => (st, some "bad-op")

partial def loop (h : IO.FS.Stream) (out : IO.FS.Stream) (st : DState) : IO Unit := do
  let line ← h.getLine
  if line.isEmpty then return ()
  let (st', o) := step st line
  match o with
  | some s => out.putStrLn s
  | none => pure ()
  let ws := line.trimAscii.toString.splitOn " "
  let st' := match ws with
    | "expect" :: _ => st'
    | "#" :: _ => st'
    | _ => { st' with last := ws }
  loop h out st'

def main : IO Unit := do
  let out ← IO.getStdout
  loop (← IO.getStdin) out {}
