import ScnrVerif.Model.Basic
import ScnrVerif.Model.Dfa
import ScnrVerif.Model.FindFrom
import ScnrVerif.Model.Iter
import ScnrVerif.Model.SpecFind
import ScnrVerif.Model.SpecIter
import ScnrVerif.Model.SpecPat
import ScnrVerif.Model.World
