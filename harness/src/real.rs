//! Execution of operation histories on the real crate, printing results in the protocol format.
use crate::rng::Rng;
use scnr::{FindMatches, Match, PeekResult, PositionProvider, Scanner, ScannerModeSwitcher};
use std::fmt::Write;
use std::panic::{catch_unwind, AssertUnwindSafe};

pub fn fmt_tok(m: &Match) -> String {
    format!("{}:{}:{}", m.token_type(), m.start(), m.end())
}

pub fn fmt_peek(p: &PeekResult) -> String {
    let toks = |ms: &Vec<Match>| ms.iter().map(fmt_tok).collect::<Vec<_>>().join(" ");
    match p {
        PeekResult::Matches(ms) => format!("peek matches {}", toks(ms)),
        PeekResult::MatchesReachedEnd(ms) => format!("peek end {}", toks(ms)),
        PeekResult::MatchesReachedModeSwitch((ms, m)) => format!("peek switch {} {}", m, toks(ms)),
        PeekResult::NotFound => "peek notfound".to_string(),
    }
}

/// `findall <mode>` on the real crate.
pub fn findall(scanner: &Scanner, mode: usize, input: &str) -> String {
    let r = catch_unwind(AssertUnwindSafe(|| scanner.verif_find_table(mode, input)));
    match r {
        Err(_) => "panic".to_string(),
        Ok(tbl) => {
            let mut o = String::from("findall");
            for (p, m) in tbl {
                match m {
                    Some(m) => {
                        let _ = write!(o, " {}:{}:{}", p, m.token_type(), m.end() - m.start());
                    }
                    None => {
                        let _ = write!(o, " {}:-", p);
                    }
                }
            }
            o
        }
    }
}

/// Weights of the operations of a history.
#[derive(Clone, Debug, Default)]
pub struct Profile {
    pub next: usize,
    pub nextp: usize,
    pub peek: usize,
    pub adv_after_peek: usize,
    pub adv_any: usize,
    pub setoff_back: usize,
    pub setoff_any: usize,
    pub setmode: usize,
    pub curmode: usize,
    pub modename: usize,
    pub off: usize,
    pub pos: usize,
    pub run_out: usize,
    /// the consuming `with_offset` (same meaning as `set_offset`)
    pub withoff: usize,
}

pub struct History<'h> {
    pub scanner: &'h Scanner,
    pub it: FindMatches<'h>,
    pub input: &'h str,
    pub k: usize,
    pub n_modes: usize,
    /// largest offset consumed so far (for position queries and backward resets)
    pub frontier: usize,
    pub boundaries: Vec<usize>,
    pub last_peek_ends: Vec<usize>,
    pub last_setoff: usize,
    pub dead: bool,
    pub flip: bool,
}

impl<'h> History<'h> {
    pub fn new(scanner: &'h Scanner, input: &'h str, k: usize, n_modes: usize) -> Self {
        let mut boundaries: Vec<usize> = input.char_indices().map(|(i, _)| i).collect();
        boundaries.push(input.len());
        History {
            scanner,
            it: scanner.find_iter(input),
            input,
            k,
            n_modes,
            frontier: 0,
            boundaries,
            last_peek_ends: vec![],
            last_setoff: 0,
            dead: false,
            flip: false,
        }
    }

    fn guarded<T>(&mut self, f: impl FnOnce(&mut FindMatches<'h>) -> T) -> Option<T> {
        let it = &mut self.it;
        match catch_unwind(AssertUnwindSafe(|| f(it))) {
            Ok(v) => Some(v),
            Err(_) => {
                self.dead = true;
                None
            }
        }
    }

    /// `set_offset(o)` (reported to the model as `setoff`).
    pub fn set_offset_to(&mut self, o: usize, out: &mut String) {
        self.last_setoff = o;
        self.last_peek_ends.clear();
        let _ = writeln!(out, "setoff {} {}", self.k, o);
        // alternately the inherent method and the one of the trait `PositionProvider`
        self.flip = !self.flip;
        let via_trait = self.flip;
        if self.guarded(|it| if via_trait { PositionProvider::set_offset(it, o) } else { it.set_offset(o) }).is_none() {
            out.push_str("expect panic\n");
        }
    }

    /// The consuming `with_offset(o)`: the iterator is replaced by the returned one. For the model
    /// this is `setoff` (the property gives both the same meaning).
    pub fn with_offset_to(&mut self, o: usize, out: &mut String) {
        self.last_setoff = o;
        self.last_peek_ends.clear();
        let _ = writeln!(out, "setoff {} {}", self.k, o);
        // move the iterator out, call the consuming method, move the result back in
        let it = unsafe { std::ptr::read(&self.it) };
        match catch_unwind(AssertUnwindSafe(move || it.with_offset(o))) {
            Ok(n) => unsafe { std::ptr::write(&mut self.it, n) },
            Err(_) => {
                unsafe { std::ptr::write(&mut self.it, self.scanner.find_iter(self.input)) };
                self.dead = true;
                out.push_str("expect panic\n");
            }
        }
    }

    /// Performs one random operation; appends the op line and its `expect` line to `out`.
    /// Returns the name of the op.
    pub fn step(&mut self, r: &mut Rng, p: &Profile, out: &mut String) -> &'static str {
        let k = self.k;
        let total = p.next + p.nextp + p.peek + p.adv_after_peek + p.adv_any + p.setoff_back
            + p.setoff_any + p.setmode + p.curmode + p.modename + p.off + p.pos + p.run_out + p.withoff;
        let mut x = r.below(total.max(1));
        macro_rules! take {
            ($w:expr) => {{
                if x < $w {
                    true
                } else {
                    x -= $w;
                    false
                }
            }};
        }
        if take!(p.next) {
            let _ = writeln!(out, "next {}", k);
            match self.guarded(|it| it.next()) {
                None => out.push_str("expect panic\n"),
                Some(Some(m)) => {
                    self.frontier = self.frontier.max(m.end());
                    let _ = writeln!(out, "expect tok {} {} {}", m.token_type(), m.start(), m.end());
                }
                Some(None) => {
                    self.frontier = self.input.len();
                    out.push_str("expect none\n");
                }
            }
            "next"
        } else if take!(p.nextp) {
            // WithPositions::next: next, then position(start), position(end)
            let _ = writeln!(out, "nextp {}", k);
            let res = self.guarded(|it| {
                it.next().map(|m| (m, PositionProvider::position(it, m.start()), PositionProvider::position(it, m.end())))
            });
            match res {
                None => out.push_str("expect panic\n"),
                Some(Some((m, s, e))) => {
                    self.frontier = self.frontier.max(m.end());
                    let _ = writeln!(
                        out,
                        "expect tokp {} {} {} {} {} {} {}",
                        m.token_type(), m.start(), m.end(), s.line, s.column, e.line, e.column
                    );
                }
                Some(None) => {
                    self.frontier = self.input.len();
                    out.push_str("expect none\n");
                }
            }
            "nextp"
        } else if take!(p.peek) {
            let n = r.below(6);
            let _ = writeln!(out, "peek {} {}", k, n);
            match self.guarded(|it| it.peek_n(n)) {
                None => out.push_str("expect panic\n"),
                Some(pr) => {
                    self.last_peek_ends = match &pr {
                        PeekResult::Matches(ms) | PeekResult::MatchesReachedEnd(ms) => {
                            ms.iter().map(|m| m.end()).collect()
                        }
                        PeekResult::MatchesReachedModeSwitch((ms, _)) => {
                            ms.iter().map(|m| m.end()).collect()
                        }
                        PeekResult::NotFound => vec![],
                    };
                    let _ = writeln!(out, "expect {}", fmt_peek(&pr));
                }
            }
            "peek"
        } else if take!(p.adv_after_peek) {
            if self.last_peek_ends.is_empty() {
                return "skip";
            }
            let e = *r.pick(&self.last_peek_ends);
            self.last_peek_ends.clear();
            let _ = writeln!(out, "adv {} {}", k, e);
            match self.guarded(|it| it.advance_to(e)) {
                None => out.push_str("expect panic\n"),
                Some(ret) => {
                    self.frontier = self.frontier.max(e);
                    let _ = writeln!(out, "expect adv {}", ret);
                }
            }
            "adv_after_peek"
        } else if take!(p.adv_any) {
            let e = if r.chance(85) { *r.pick(&self.boundaries) } else { self.input.len() + r.below(3) };
            self.last_peek_ends.clear();
            let _ = writeln!(out, "adv {} {}", k, e);
            match self.guarded(|it| it.advance_to(e)) {
                None => out.push_str("expect panic\n"),
                Some(ret) => {
                    self.frontier = self.frontier.max(e.min(self.input.len()));
                    let _ = writeln!(out, "expect adv {}", ret);
                }
            }
            "adv_any"
        } else if take!(p.setoff_back) {
            let cands: Vec<usize> =
                self.boundaries.iter().cloned().filter(|b| *b <= self.frontier).collect();
            // bias: the frontier itself, the last reset offset, offsets directly after a line feed
            let after_lf: Vec<usize> = cands
                .iter()
                .cloned()
                .filter(|b| *b > 0 && self.input.as_bytes()[*b - 1] == b'\n')
                .collect();
            let o = match r.below(10) {
                0..=2 => self.frontier,
                3 => self.last_setoff.min(self.frontier),
                4..=5 if !after_lf.is_empty() => *r.pick(&after_lf),
                _ => *r.pick(&cands),
            };
            self.set_offset_to(o, out);
            "setoff_back"
        } else if take!(p.setoff_any) {
            let o = if r.chance(80) { *r.pick(&self.boundaries) } else { self.input.len() + r.below(4) };
            self.set_offset_to(o, out);
            "setoff_any"
        } else if take!(p.withoff) {
            let o = if r.chance(85) { *r.pick(&self.boundaries) } else { self.input.len() + r.below(4) };
            self.with_offset_to(o, out);
            "withoff"
        } else if take!(p.setmode) {
            let m = r.below(self.n_modes);
            let _ = writeln!(out, "setmode {} {}", k, m);
            if self.guarded(|it| it.set_mode(m)).is_none() {
                out.push_str("expect panic\n");
            }
            "setmode"
        } else if take!(p.curmode) {
            let _ = writeln!(out, "curmode {}", k);
            match self.guarded(|it| it.current_mode()) {
                None => out.push_str("expect panic\n"),
                Some(m) => {
                    let _ = writeln!(out, "expect mode {}", m);
                }
            }
            "curmode"
        } else if take!(p.modename) {
            let i = r.below(self.n_modes + 2);
            let _ = writeln!(out, "modename {}", i);
            match self.guarded(|it| it.mode_name(i).map(|s| s.to_string())) {
                None => out.push_str("expect panic\n"),
                Some(Some(n)) => {
                    let _ = writeln!(out, "expect name{}", crate::proto::cps(&n));
                }
                Some(None) => out.push_str("expect name none\n"),
            }
            "modename"
        } else if take!(p.off) {
            let _ = writeln!(out, "off {}", k);
            match self.guarded(|it| it.offset()) {
                None => out.push_str("expect panic\n"),
                Some(o) => {
                    let _ = writeln!(out, "expect off {}", o);
                }
            }
            "off"
        } else if take!(p.pos) {
            let cands: Vec<usize> =
                self.boundaries.iter().cloned().filter(|b| *b <= self.frontier).collect();
            let o = *r.pick(&cands);
            let _ = writeln!(out, "pos {} {}", k, o);
            match self.guarded(|it| PositionProvider::position(it, o)) {
                None => out.push_str("expect panic\n"),
                Some(p) => {
                    let _ = writeln!(out, "expect pos {} {}", p.line, p.column);
                }
            }
            "pos"
        } else {
            // run to exhaustion
            let mut guard = 0;
            loop {
                let _ = writeln!(out, "next {}", k);
                match self.guarded(|it| it.next()) {
                    None => {
                        out.push_str("expect panic\n");
                        break;
                    }
                    Some(Some(m)) => {
                        self.frontier = self.frontier.max(m.end());
                        let _ = writeln!(out, "expect tok {} {} {}", m.token_type(), m.start(), m.end());
                    }
                    Some(None) => {
                        self.frontier = self.input.len();
                        out.push_str("expect none\n");
                        break;
                    }
                }
                guard += 1;
                if guard > self.input.len() + 2 {
                    out.push_str("expect runaway\n");
                    self.dead = true;
                    break;
                }
            }
            "run_out"
        }
    }
}

/// A history driven entirely through the `WithPositions` adapter (`find_iter(..).with_positions()`):
/// `next` (tokens with positions), and the adapter's own `set_offset`, `position`, `set_mode`,
/// `current_mode`, `mode_name` (trait impls that delegate to the wrapped iterator). Reported to the
/// model with the ordinary operation names on slot `k`.
pub fn adapter_history(scanner: &Scanner, input: &str, k: usize, n_modes: usize, r: &mut Rng, n_ops: usize, back_only: bool, out: &mut String) -> usize {
    use scnr::MatchExtIterator;
    let mut boundaries: Vec<usize> = input.char_indices().map(|(i, _)| i).collect();
    boundaries.push(input.len());
    let mut ad = scanner.find_iter(input).with_positions();
    let mut frontier = 0usize;
    let mut done = 0usize;
    for _ in 0..n_ops {
        let x = r.below(100);
        let res = catch_unwind(AssertUnwindSafe(|| {
            let mut o = String::new();
            if x < 45 {
                let _ = writeln!(o, "nextp {}", k);
                match ad.next() {
                    Some(me) => {
                        frontier = frontier.max(me.end());
                        let _ = writeln!(o, "expect tokp {} {} {} {} {} {} {}", me.token_type(), me.start(), me.end(),
                            me.start_position().line, me.start_position().column, me.end_position().line, me.end_position().column);
                    }
                    None => {
                        frontier = input.len();
                        o.push_str("expect none\n");
                    }
                }
            } else if x < 63 {
                let cands: Vec<usize> = boundaries.iter().cloned().filter(|b| *b <= frontier || !back_only).collect();
                let off = if !back_only && r.chance(15) { input.len() + r.below(3) } else { *r.pick(&cands) };
                let _ = writeln!(o, "setoff {} {}", k, off);
                PositionProvider::set_offset(&mut ad, off);
            } else if x < 75 {
                let cands: Vec<usize> = boundaries.iter().cloned().filter(|b| *b <= frontier).collect();
                let off = *r.pick(&cands);
                let _ = writeln!(o, "pos {} {}", k, off);
                let p = PositionProvider::position(&ad, off);
                let _ = writeln!(o, "expect pos {} {}", p.line, p.column);
            } else if x < 85 {
                let m = r.below(n_modes);
                let _ = writeln!(o, "setmode {} {}", k, m);
                ScannerModeSwitcher::set_mode(&mut ad, m);
            } else if x < 95 {
                let _ = writeln!(o, "curmode {}", k);
                let _ = writeln!(o, "expect mode {}", ScannerModeSwitcher::current_mode(&ad));
            } else {
                let i = r.below(n_modes + 2);
                let _ = writeln!(o, "modename {}", i);
                match ScannerModeSwitcher::mode_name(&ad, i) {
                    Some(n) => {
                        let _ = writeln!(o, "expect name{}", crate::proto::cps(n));
                    }
                    None => o.push_str("expect name none\n"),
                }
            }
            o
        }));
        match res {
            Ok(o) => {
                out.push_str(&o);
                done += 1;
            }
            Err(_) => {
                let _ = writeln!(out, "curmode {}\nexpect panic", k);
                break;
            }
        }
    }
    done
}
