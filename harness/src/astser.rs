//! Serialisation of the AST that regex-syntax produces for a pattern string (node by node) into the
//! prefix notation of the Lean driver, with one *reference* class table per leaf.
use crate::proto::{class_table, Ranges};
use regex_syntax::ast::{parse::Parser, Ast, RepetitionKind, RepetitionRange};
use scnr::ScannerBuilder;
use std::collections::HashMap;
use std::fmt::Write;
use std::sync::{Arc, Mutex};

/// Reference tables, process wide, keyed by the printed leaf.
#[derive(Default)]
pub struct RefCache {
    map: Mutex<HashMap<String, Option<Arc<Ranges>>>>,
}

fn dot_table() -> Ranges {
    vec![(0, 9), (11, 12), (14, 0xD7FF), (0xE000, 0x10FFFF)]
}

/// A bracketed class made only of literals, ranges, nested such classes and set operations on
/// them has a meaning that needs no Unicode data: its table is computed here, independently of the
/// crate (regex-syntax's translation of the class to code point ranges). Classes with named items
/// (`\d`, `[:alpha:]`, `\p{..}`) or with a verbatim `.` (finding F3) are not handled here (see
/// `algebra_table`).
pub fn native_table(text: &str) -> Option<Ranges> {
    use regex_syntax::ast::{ClassSet, ClassSetItem, LiteralKind};
    fn plain_item(i: &ClassSetItem) -> bool {
        match i {
            ClassSetItem::Empty(_) => true,
            ClassSetItem::Literal(l) => !(l.c == '.' && matches!(l.kind, LiteralKind::Verbatim)),
            ClassSetItem::Range(r) => {
                !(r.start.c == '.' && matches!(r.start.kind, LiteralKind::Verbatim))
                    && !(r.end.c == '.' && matches!(r.end.kind, LiteralKind::Verbatim))
            }
            ClassSetItem::Bracketed(b) => plain_set(&b.kind),
            ClassSetItem::Union(u) => u.items.iter().all(plain_item),
            ClassSetItem::Ascii(_) | ClassSetItem::Unicode(_) | ClassSetItem::Perl(_) => false,
        }
    }
    fn plain_set(s: &ClassSet) -> bool {
        match s {
            ClassSet::Item(i) => plain_item(i),
            ClassSet::BinaryOp(b) => plain_set(&b.lhs) && plain_set(&b.rhs),
        }
    }
    let ast = Parser::new().parse(text).ok()?;
    let Ast::ClassBracketed(b) = &ast else { return None };
    if !plain_set(&b.kind) {
        return None;
    }
    let hir = regex_syntax::hir::translate::Translator::new().translate(text, &ast).ok()?;
    let regex_syntax::hir::HirKind::Class(regex_syntax::hir::Class::Unicode(cls)) = hir.kind() else { return None };
    let mut out: Ranges = Vec::new();
    for r in cls.ranges() {
        let (lo, hi) = (r.start() as u32, r.end() as u32);
        if lo <= 0xD7FF && hi >= 0xE000 {
            out.push((lo, 0xD7FF));
            out.push((0xE000, hi));
        } else {
            out.push((lo, hi));
        }
    }
    Some(out)
}

impl RefCache {
    /// The table of a class leaf: for plain bracketed classes the independently computed table
    /// (`native_table`), otherwise the set it denotes when used alone (stand-alone scanner with
    /// that single pattern, enumerated exhaustively).
    pub fn class_leaf(&self, text: &str) -> Option<Arc<Ranges>> {
        if let Some(t) = self.map.lock().unwrap().get(text) {
            return t.clone();
        }
        if let Some(t) = native_table(text) {
            let t = Some(Arc::new(t));
            self.map.lock().unwrap().insert(text.to_string(), t.clone());
            return t;
        }
        // a bracketed class with named items: the set algebra over the tables of the named items
        // *used alone* (what C08 states), computed here and not by the crate's composition code
        if let Some(t) = self.algebra_table(text) {
            let t = Some(Arc::new(t));
            self.map.lock().unwrap().insert(text.to_string(), t.clone());
            return t;
        }
        self.primitive(text)
    }

    /// The set a class denotes when it is the only pattern of a scanner (exhaustive enumeration of
    /// the real match function).
    fn primitive(&self, text: &str) -> Option<Arc<Ranges>> {
        let key = format!("prim:{}", text);
        if let Some(t) = self.map.lock().unwrap().get(&key) {
            return t.clone();
        }
        let mode = scnr::ScannerMode::new("R", vec![scnr::Pattern::new(text.to_string(), 0)], vec![]);
        let t = ScannerBuilder::new()
            .add_scanner_mode(mode)
            .build_uncached()
            .ok()
            .and_then(|s| {
                let d = s.verif_dump();
                if d.classes.len() == 1 {
                    Some(Arc::new(class_table(&s, 0)))
                } else {
                    None
                }
            });
        self.map.lock().unwrap().insert(key, t.clone());
        t
    }

    /// Textbook evaluation of a bracketed class over range tables: literals, ranges, nested
    /// brackets, union, `&&`, `--`, `~~`, negation at any level; a named item contributes the table
    /// it has when used alone (positive form), complemented if the item is negated. `None` for
    /// classes with a verbatim `.` (finding F3) or valued Unicode classes.
    fn algebra_table(&self, text: &str) -> Option<Ranges> {
        use regex_syntax::ast::{ClassAsciiKind, ClassPerlKind, ClassSet, ClassSetBinaryOpKind, ClassSetItem, ClassUnicodeKind, LiteralKind};
        fn norm(mut v: Ranges) -> Ranges {
            v.sort();
            let mut out: Ranges = Vec::new();
            for (lo, hi) in v {
                if let Some(last) = out.last_mut() {
                    if lo <= last.1.saturating_add(1) {
                        last.1 = last.1.max(hi);
                        continue;
                    }
                }
                out.push((lo, hi));
            }
            out
        }
        fn comp(v: &Ranges) -> Ranges {
            // complement within the scalar values
            let v = norm(v.clone());
            let mut out = Vec::new();
            for (base_lo, base_hi) in [(0u32, 0xD7FFu32), (0xE000, 0x10FFFF)] {
                let mut at = base_lo;
                let mut done = false;
                for (lo, hi) in v.iter().cloned() {
                    if hi < base_lo || lo > base_hi {
                        continue;
                    }
                    let lo = lo.max(base_lo);
                    let hi = hi.min(base_hi);
                    if lo > at {
                        out.push((at, lo - 1));
                    }
                    if hi == base_hi {
                        done = true;
                        break;
                    }
                    at = hi + 1;
                }
                if !done && at <= base_hi {
                    out.push((at, base_hi));
                }
            }
            out
        }
        fn union(a: &Ranges, b: &Ranges) -> Ranges {
            let mut v = a.clone();
            v.extend(b.iter().cloned());
            norm(v)
        }
        fn inter(a: &Ranges, b: &Ranges) -> Ranges {
            comp(&union(&comp(a), &comp(b)))
        }
        fn scalars(v: Ranges) -> Ranges {
            comp(&comp(&v))
        }
        struct Ev<'c> {
            cache: &'c RefCache,
        }
        impl Ev<'_> {
            fn named(&self, standalone: String, negated: bool) -> Option<Ranges> {
                let t = self.cache.primitive(&standalone)?;
                Some(if negated { comp(&t) } else { scalars((*t).clone()) })
            }
            fn item(&self, i: &ClassSetItem) -> Option<Ranges> {
                match i {
                    ClassSetItem::Empty(_) => Some(vec![]),
                    ClassSetItem::Literal(l) => {
                        if l.c == '.' && matches!(l.kind, LiteralKind::Verbatim) {
                            return None;
                        }
                        Some(vec![(l.c as u32, l.c as u32)])
                    }
                    ClassSetItem::Range(r) => {
                        if (r.start.c == '.' && matches!(r.start.kind, LiteralKind::Verbatim)) || (r.end.c == '.' && matches!(r.end.kind, LiteralKind::Verbatim)) {
                            return None;
                        }
                        Some(scalars(vec![(r.start.c as u32, r.end.c as u32)]))
                    }
                    ClassSetItem::Ascii(a) => {
                        let name = match a.kind {
                            ClassAsciiKind::Alnum => "alnum", ClassAsciiKind::Alpha => "alpha", ClassAsciiKind::Ascii => "ascii",
                            ClassAsciiKind::Blank => "blank", ClassAsciiKind::Cntrl => "cntrl", ClassAsciiKind::Digit => "digit",
                            ClassAsciiKind::Graph => "graph", ClassAsciiKind::Lower => "lower", ClassAsciiKind::Print => "print",
                            ClassAsciiKind::Punct => "punct", ClassAsciiKind::Space => "space", ClassAsciiKind::Upper => "upper",
                            ClassAsciiKind::Word => "word", ClassAsciiKind::Xdigit => "xdigit",
                        };
                        self.named(format!("[[:{}:]]", name), a.negated)
                    }
                    ClassSetItem::Perl(p) => {
                        let c = match p.kind { ClassPerlKind::Digit => 'd', ClassPerlKind::Space => 's', ClassPerlKind::Word => 'w' };
                        self.named(format!("\\{}", c), p.negated)
                    }
                    ClassSetItem::Unicode(u) => {
                        let text = match &u.kind {
                            ClassUnicodeKind::OneLetter(c) => format!("\\p{}", c),
                            ClassUnicodeKind::Named(n) => format!("\\p{{{}}}", n),
                            ClassUnicodeKind::NamedValue { .. } => return None,
                        };
                        self.named(text, u.negated)
                    }
                    ClassSetItem::Bracketed(b) => {
                        let t = self.set(&b.kind)?;
                        Some(if b.negated { comp(&t) } else { t })
                    }
                    ClassSetItem::Union(u) => {
                        let mut acc: Ranges = vec![];
                        for x in &u.items {
                            acc = union(&acc, &self.item(x)?);
                        }
                        Some(acc)
                    }
                }
            }
            fn set(&self, s: &ClassSet) -> Option<Ranges> {
                match s {
                    ClassSet::Item(i) => self.item(i),
                    ClassSet::BinaryOp(b) => {
                        let (l, r) = (self.set(&b.lhs)?, self.set(&b.rhs)?);
                        Some(match b.kind {
                            ClassSetBinaryOpKind::Intersection => inter(&l, &r),
                            ClassSetBinaryOpKind::Difference => inter(&l, &comp(&r)),
                            ClassSetBinaryOpKind::SymmetricDifference => union(&inter(&l, &comp(&r)), &inter(&r, &comp(&l))),
                        })
                    }
                }
            }
        }
        let ast = Parser::new().parse(text).ok()?;
        let Ast::ClassBracketed(b) = &ast else { return None };
        let ev = Ev { cache: self };
        let t = ev.set(&b.kind)?;
        Some(if b.negated { comp(&t) } else { t })
    }
}

/// Per-case collection of reference tables (ids are local to the case).
#[derive(Default)]
pub struct RefTables {
    pub tables: Vec<Arc<Ranges>>,
    index: HashMap<String, usize>,
}

impl RefTables {
    fn intern(&mut self, key: String, t: Arc<Ranges>) -> usize {
        if let Some(i) = self.index.get(&key) {
            return *i;
        }
        self.tables.push(t);
        self.index.insert(key, self.tables.len() - 1);
        self.tables.len() - 1
    }
    pub fn write(&self, out: &mut String) {
        for (i, t) in self.tables.iter().enumerate() {
            let _ = write!(out, "rclass {}", i);
            for (lo, hi) in t.iter() {
                let _ = write!(out, " {} {}", lo, hi);
            }
            out.push('\n');
        }
    }
}

/// Prefix notation: `E` | `L id` | `C n ..` | `A n ..` | `R min max|inf x`.
/// Returns None for constructs outside the supported subset.
pub fn ser(ast: &Ast, refs: &mut RefTables, cache: &RefCache, out: &mut String) -> Option<()> {
    match ast {
        Ast::Empty(_) => out.push_str(" E"),
        Ast::Literal(l) => {
            let id = refs.intern(format!("lit:{}", l.c as u32), Arc::new(vec![(l.c as u32, l.c as u32)]));
            let _ = write!(out, " L {}", id);
        }
        Ast::Dot(_) => {
            let id = refs.intern("dot".to_string(), Arc::new(dot_table()));
            let _ = write!(out, " L {}", id);
        }
        Ast::ClassUnicode(_) | Ast::ClassPerl(_) | Ast::ClassBracketed(_) => {
            let text = ast.to_string();
            let t = cache.class_leaf(&text)?;
            let id = refs.intern(format!("cls:{}", text), t);
            let _ = write!(out, " L {}", id);
        }
        Ast::Repetition(r) => {
            if !r.greedy {
                return None;
            }
            let (min, max): (u32, Option<u32>) = match &r.op.kind {
                RepetitionKind::ZeroOrOne => (0, Some(1)),
                RepetitionKind::ZeroOrMore => (0, None),
                RepetitionKind::OneOrMore => (1, None),
                RepetitionKind::Range(RepetitionRange::Exactly(n)) => (*n, Some(*n)),
                RepetitionKind::Range(RepetitionRange::AtLeast(n)) => (*n, None),
                RepetitionKind::Range(RepetitionRange::Bounded(m, n)) => (*m, Some(*n)),
            };
            match max {
                Some(n) => {
                    let _ = write!(out, " R {} {}", min, n);
                }
                None => {
                    let _ = write!(out, " R {} inf", min);
                }
            }
            ser(&r.ast, refs, cache, out)?;
        }
        Ast::Group(g) => ser(&g.ast, refs, cache, out)?,
        Ast::Alternation(a) => {
            let _ = write!(out, " A {}", a.asts.len());
            for x in &a.asts {
                ser(x, refs, cache, out)?;
            }
        }
        Ast::Concat(c) => {
            let _ = write!(out, " C {}", c.asts.len());
            for x in &c.asts {
                ser(x, refs, cache, out)?;
            }
        }
        Ast::Flags(_) | Ast::Assertion(_) => return None,
    }
    Some(())
}

pub fn ser_pattern(pattern: &str, refs: &mut RefTables, cache: &RefCache) -> Option<String> {
    let ast = Parser::new().parse(pattern).ok()?;
    let mut s = String::new();
    ser(&ast, refs, cache, &mut s)?;
    Some(s)
}


/// Registry keys in the order the compiler registers classes (mirrors `ComparableAst::eq`).
#[derive(Default)]
pub struct RegKeys {
    pub keys: Vec<String>,
}

impl RegKeys {
    fn id(&mut self, key: String) -> usize {
        if let Some(i) = self.keys.iter().position(|k| *k == key) {
            return i;
        }
        self.keys.push(key);
        self.keys.len() - 1
    }
}

/// Serialisation for the compiler model: keeps the repetition operator kinds; leaves carry the
/// registry id. `E | L id | C n .. | A n .. | Q x | S x | P x | X n x | T n x | B m n x`.
pub fn ser_cast_with(ast: &Ast, leaf: &mut dyn FnMut(&Ast) -> usize, out: &mut String) -> Option<()> {
    match ast {
        Ast::Empty(_) => out.push_str(" E"),
        Ast::Literal(_) | Ast::Dot(_) | Ast::ClassUnicode(_) | Ast::ClassPerl(_) | Ast::ClassBracketed(_) => {
            let id = leaf(ast);
            let _ = write!(out, " L {}", id);
        }
        Ast::Repetition(r) => {
            if !r.greedy {
                return None;
            }
            match &r.op.kind {
                RepetitionKind::ZeroOrOne => out.push_str(" Q"),
                RepetitionKind::ZeroOrMore => out.push_str(" S"),
                RepetitionKind::OneOrMore => out.push_str(" P"),
                RepetitionKind::Range(RepetitionRange::Exactly(n)) => {
                    let _ = write!(out, " X {}", n);
                }
                RepetitionKind::Range(RepetitionRange::AtLeast(n)) => {
                    let _ = write!(out, " T {}", n);
                }
                RepetitionKind::Range(RepetitionRange::Bounded(m, n)) => {
                    let _ = write!(out, " B {} {}", m, n);
                }
            }
            ser_cast_with(&r.ast, leaf, out)?;
        }
        Ast::Group(g) => ser_cast_with(&g.ast, leaf, out)?,
        Ast::Alternation(a) => {
            let _ = write!(out, " A {}", a.asts.len());
            for x in &a.asts {
                ser_cast_with(x, leaf, out)?;
            }
        }
        Ast::Concat(c) => {
            let _ = write!(out, " C {}", c.asts.len());
            for x in &c.asts {
                ser_cast_with(x, leaf, out)?;
            }
        }
        Ast::Flags(_) | Ast::Assertion(_) => return None,
    }
    Some(())
}

/// The key the registry emulation of the harness files a leaf under (mirrors `ComparableAst::eq`).
fn reg_key(ast: &Ast) -> String {
    match ast {
        Ast::Literal(l) => format!("lit:{}:{:?}", l.c as u32, l.kind),
        Ast::Dot(_) => "dot".to_string(),
        Ast::ClassUnicode(_) => format!("cls:u:{}", ast.to_string().escape_default()),
        Ast::ClassPerl(_) => format!("cls:p:{}", ast.to_string().escape_default()),
        _ => format!("cls:b:{}", ast.to_string().escape_default()),
    }
}

pub fn ser_cast(ast: &Ast, reg: &mut RegKeys, out: &mut String) -> Option<()> {
    ser_cast_with(ast, &mut |a| reg.id(reg_key(a)), out)
}

/// The printed, escaped text of a leaf: what `CharacterClass`'s `Display` shows for a registered
/// class, and a faithful key of its `ComparableAst` equality class (classes are compared by exactly
/// this text; for a literal the text determines `(char, kind)` and vice versa; `.` is the dot).
pub fn leaf_text(ast: &Ast) -> String {
    ast.to_string().escape_default().to_string()
}

/// All leaf texts of a pattern, in no particular order.
pub fn collect_leaf_texts(pattern: &str, out: &mut std::collections::BTreeSet<String>) -> Option<()> {
    let ast = Parser::new().parse(pattern).ok()?;
    let mut s = String::new();
    ser_cast_with(&ast, &mut |a| { out.insert(leaf_text(a)); 0 }, &mut s)
}

/// A pattern for the registry model: leaves carry the position of their text in the sorted table
/// `keys` (an arbitrary numbering of the equality classes, not the registration order).
pub fn ser_kpattern(pattern: &str, keys: &[String]) -> Option<String> {
    let ast = Parser::new().parse(pattern).ok()?;
    let mut s = String::new();
    let mut ok = true;
    ser_cast_with(&ast, &mut |a| match keys.binary_search(&leaf_text(a)) { Ok(i) => i, Err(_) => { ok = false; 0 } }, &mut s)?;
    if ok { Some(s) } else { None }
}

pub fn ser_cpattern(pattern: &str, reg: &mut RegKeys) -> Option<String> {
    let ast = Parser::new().parse(pattern).ok()?;
    let mut s = String::new();
    ser_cast(&ast, reg, &mut s)?;
    Some(s)
}
