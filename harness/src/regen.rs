//! Generator of regex pattern strings over a small alphabet mixing 1-4 byte characters.
use crate::rng::Rng;

/// The alphabet used for literals and inputs: 1, 2, 3 and 4 byte characters and a line break.
pub const ALPHABET: [char; 8] = ['a', 'b', 'c', 'é', '€', '𝄞', '\n', ' '];

#[derive(Clone, Debug)]
pub enum Re {
    Empty,
    Lit(char),
    Dot,
    /// class text including brackets / escape, e.g. `[a-c]`, `\w`
    Class(String),
    Cat(Vec<Re>),
    Alt(Vec<Re>),
    Star(Box<Re>),
    Plus(Box<Re>),
    Opt(Box<Re>),
    Rep(Box<Re>, u32, Option<Option<u32>>), // {m} | {m,} | {m,n}
    Group(Box<Re>),
}

pub const CLASSES: [&str; 28] = [
    "[a-c]", "[^a]", "[ab]", "[b-é]", "[a€𝄞]", r"\w", r"\d", r"\s", "[^\\n]", "[a-c&&[^b]]",
    "[[:alpha:]]", r"[\w--a]", "[€-𝄞]", r"\S", "[ac ]", r"[^\s\w]",
    r"\pL", r"\PL", r"\pN", r"\PN", r"\p{Lowercase}", r"\P{Lowercase}", r"\p{Uppercase}",
    r"\p{Alphabetic}", r"\P{Alphabetic}", r"[\pL\d]", r"\W", r"[^\PL]",
];

fn lit_str(c: char) -> String {
    match c {
        '\n' => "\\n".to_string(),
        ' ' => "\\x20".to_string(),
        c => c.to_string(),
    }
}

impl Re {
    pub fn render(&self) -> String {
        match self {
            Re::Empty => String::new(),
            Re::Lit(c) => lit_str(*c),
            Re::Dot => ".".to_string(),
            Re::Class(s) => s.clone(),
            Re::Cat(v) => v.iter().map(|r| r.render_in_cat()).collect(),
            Re::Alt(v) => v.iter().map(|r| r.render()).collect::<Vec<_>>().join("|"),
            Re::Star(r) => format!("{}*", r.render_atom()),
            Re::Plus(r) => format!("{}+", r.render_atom()),
            Re::Opt(r) => format!("{}?", r.render_atom()),
            Re::Rep(r, m, None) => format!("{}{{{}}}", r.render_atom(), m),
            Re::Rep(r, m, Some(None)) => format!("{}{{{},}}", r.render_atom(), m),
            Re::Rep(r, m, Some(Some(n))) => format!("{}{{{},{}}}", r.render_atom(), m, n),
            Re::Group(r) => format!("({})", r.render()),
        }
    }
    fn render_in_cat(&self) -> String {
        match self {
            Re::Alt(_) => format!("(?:{})", self.render()),
            _ => self.render(),
        }
    }
    fn render_atom(&self) -> String {
        match self {
            Re::Lit(_) | Re::Dot | Re::Class(_) | Re::Group(_) => self.render(),
            _ => format!("(?:{})", self.render()),
        }
    }
    pub fn nullable(&self) -> bool {
        match self {
            Re::Empty => true,
            Re::Lit(_) | Re::Dot | Re::Class(_) => false,
            Re::Cat(v) => v.iter().all(|r| r.nullable()),
            Re::Alt(v) => v.iter().any(|r| r.nullable()),
            Re::Star(_) | Re::Opt(_) => true,
            Re::Plus(r) | Re::Group(r) => r.nullable(),
            Re::Rep(r, m, _) => *m == 0 || r.nullable(),
        }
    }
}

pub struct GenCfg {
    /// probability (percent) of an empty alternative
    pub empty_alt: usize,
    /// maximum nesting depth
    pub depth: usize,
    /// use classes
    pub classes: bool,
}

impl Default for GenCfg {
    fn default() -> Self {
        GenCfg { empty_alt: 8, depth: 3, classes: true }
    }
}

pub fn gen_atom(r: &mut Rng, cfg: &GenCfg, depth: usize) -> Re {
    let k = r.below(100);
    if k < 50 || depth == 0 {
        if cfg.classes && r.chance(30) {
            if r.chance(12) {
                Re::Dot
            } else {
                Re::Class(r.pick(&CLASSES).to_string())
            }
        } else {
            // bias to a,b,c so that patterns overlap
            let c = if r.chance(70) { ALPHABET[r.below(3)] } else { *r.pick(&ALPHABET) };
            Re::Lit(c)
        }
    } else {
        Re::Group(Box::new(gen_alt(r, cfg, depth - 1)))
    }
}

pub fn gen_rep(r: &mut Rng, cfg: &GenCfg, depth: usize) -> Re {
    let a = gen_atom(r, cfg, depth);
    // a counted repetition directly inside a counted repetition with the same bounds (decided
    // without drawing from the generator)
    if let Re::Group(g) = &a {
        if let Re::Rep(_, m, b) = &**g {
            if (*m as usize + depth) % 2 == 0 {
                return Re::Rep(Box::new(a.clone()), *m, b.clone());
            }
        }
    }
    match r.below(100) {
        0..=54 => a,
        55..=64 => Re::Star(Box::new(a)),
        65..=76 => Re::Plus(Box::new(a)),
        77..=86 => Re::Opt(Box::new(a)),
        87..=90 => Re::Rep(Box::new(a), r.below(4) as u32, None),
        91..=94 => Re::Rep(Box::new(a), r.below(3) as u32, Some(None)),
        _ => {
            let m = r.below(3) as u32;
            let n = m + r.below(3) as u32;
            Re::Rep(Box::new(a), m, Some(Some(n)))
        }
    }
}

pub fn gen_cat(r: &mut Rng, cfg: &GenCfg, depth: usize) -> Re {
    let n = match r.below(10) {
        0..=3 => 1,
        4..=7 => 2,
        _ => 3,
    };
    let mut v: Vec<Re> = (0..n).map(|_| gen_rep(r, cfg, depth)).collect();
    if v.len() == 1 {
        v.pop().unwrap()
    } else {
        Re::Cat(v)
    }
}

pub fn gen_alt(r: &mut Rng, cfg: &GenCfg, depth: usize) -> Re {
    let n = match r.below(10) {
        0..=5 => 1,
        6..=8 => 2,
        _ => 3,
    };
    let mut v: Vec<Re> = (0..n)
        .map(|_| if r.chance(cfg.empty_alt) { Re::Empty } else { gen_cat(r, cfg, depth) })
        .collect();
    if v.len() == 1 {
        v.pop().unwrap()
    } else {
        Re::Alt(v)
    }
}

/// A pattern; `non_nullable` rejects patterns that can match the empty string.
pub fn gen_pattern(r: &mut Rng, cfg: &GenCfg, non_nullable: bool) -> Re {
    for _ in 0..50 {
        let re = gen_alt(r, cfg, cfg.depth);
        if matches!(re, Re::Empty) {
            continue;
        }
        if non_nullable && re.nullable() {
            continue;
        }
        return re;
    }
    Re::Lit('a')
}
