//! Strict parser for the DOT subset written by `generate_compiled_automata_as_dot`.
//! A parse failure is the "not well-formed" verdict of C18.

#[derive(Debug, Clone, PartialEq)]
enum Tok {
    Id(String),
    Str(String),
    LBrace,
    RBrace,
    LBrack,
    RBrack,
    Eq,
    Comma,
    Semi,
    Arrow,
}

fn lex(text: &str) -> Result<Vec<Tok>, String> {
    let cs: Vec<char> = text.chars().collect();
    let mut i = 0;
    let mut out = Vec::new();
    while i < cs.len() {
        let c = cs[i];
        if c.is_whitespace() {
            i += 1;
        } else if c == '"' {
            // quoted string: \" is an escaped quote, a backslash escapes the next character
            let mut s = String::new();
            i += 1;
            loop {
                if i >= cs.len() {
                    return Err("unterminated string".into());
                }
                if cs[i] == '\\' {
                    if i + 1 >= cs.len() {
                        return Err("dangling backslash".into());
                    }
                    s.push(cs[i]);
                    s.push(cs[i + 1]);
                    i += 2;
                } else if cs[i] == '"' {
                    i += 1;
                    break;
                } else {
                    s.push(cs[i]);
                    i += 1;
                }
            }
            out.push(Tok::Str(s));
        } else if c == '{' {
            out.push(Tok::LBrace);
            i += 1;
        } else if c == '}' {
            out.push(Tok::RBrace);
            i += 1;
        } else if c == '[' {
            out.push(Tok::LBrack);
            i += 1;
        } else if c == ']' {
            out.push(Tok::RBrack);
            i += 1;
        } else if c == '=' {
            out.push(Tok::Eq);
            i += 1;
        } else if c == ',' {
            out.push(Tok::Comma);
            i += 1;
        } else if c == ';' {
            out.push(Tok::Semi);
            i += 1;
        } else if c == '-' && i + 1 < cs.len() && cs[i + 1] == '>' {
            out.push(Tok::Arrow);
            i += 2;
        } else if c.is_alphanumeric() || c == '_' || c == '.' {
            let mut s = String::new();
            while i < cs.len() && (cs[i].is_alphanumeric() || cs[i] == '_' || cs[i] == '.') {
                s.push(cs[i]);
                i += 1;
            }
            out.push(Tok::Id(s));
        } else {
            return Err(format!("unexpected character {:?} at {}", c, i));
        }
    }
    Ok(out)
}

#[derive(Debug, Clone, Default, PartialEq)]
pub struct Node {
    pub name: String,
    pub attrs: Vec<(String, String)>,
}

#[derive(Debug, Clone, Default, PartialEq)]
pub struct Edge {
    pub src: String,
    pub dst: String,
    pub attrs: Vec<(String, String)>,
}

#[derive(Debug, Clone, Default, PartialEq)]
pub struct Graph {
    pub label: Option<String>,
    pub nodes: Vec<Node>,
    pub edges: Vec<Edge>,
    pub clusters: Vec<Graph>,
}

struct P {
    t: Vec<Tok>,
    i: usize,
}

impl P {
    fn peek(&self) -> Option<&Tok> {
        self.t.get(self.i)
    }
    fn next(&mut self) -> Option<Tok> {
        let t = self.t.get(self.i).cloned();
        self.i += 1;
        t
    }
    fn expect(&mut self, t: Tok) -> Result<(), String> {
        match self.next() {
            Some(x) if x == t => Ok(()),
            other => Err(format!("expected {:?}, found {:?}", t, other)),
        }
    }
    fn value(&mut self) -> Result<String, String> {
        match self.next() {
            Some(Tok::Id(s)) | Some(Tok::Str(s)) => Ok(s),
            other => Err(format!("expected a value, found {:?}", other)),
        }
    }
    fn attrs(&mut self) -> Result<Vec<(String, String)>, String> {
        let mut out = Vec::new();
        self.expect(Tok::LBrack)?;
        loop {
            let k = match self.next() {
                Some(Tok::Id(s)) => s,
                other => return Err(format!("expected attribute name, found {:?}", other)),
            };
            self.expect(Tok::Eq)?;
            out.push((k, self.value()?));
            match self.next() {
                Some(Tok::Comma) => continue,
                Some(Tok::RBrack) => break,
                other => return Err(format!("expected , or ], found {:?}", other)),
            }
        }
        Ok(out)
    }
    fn body(&mut self) -> Result<Graph, String> {
        let mut g = Graph::default();
        self.expect(Tok::LBrace)?;
        loop {
            match self.peek().cloned() {
                Some(Tok::RBrace) => {
                    self.i += 1;
                    break;
                }
                Some(Tok::Id(s)) if s == "subgraph" => {
                    self.i += 1;
                    match self.next() {
                        Some(Tok::Id(n)) if n.starts_with("cluster_") => {}
                        other => return Err(format!("expected cluster name, found {:?}", other)),
                    }
                    g.clusters.push(self.body()?);
                }
                Some(Tok::Id(k)) => {
                    // graph attribute: id = value ;
                    self.i += 1;
                    self.expect(Tok::Eq)?;
                    let v = self.value()?;
                    self.expect(Tok::Semi)?;
                    if k == "label" {
                        g.label = Some(v);
                    }
                }
                Some(Tok::Str(name)) => {
                    self.i += 1;
                    if self.peek() == Some(&Tok::Arrow) {
                        self.i += 1;
                        let dst = match self.next() {
                            Some(Tok::Str(s)) => s,
                            other => return Err(format!("expected edge target, found {:?}", other)),
                        };
                        let attrs = if self.peek() == Some(&Tok::LBrack) { self.attrs()? } else { vec![] };
                        self.expect(Tok::Semi)?;
                        g.edges.push(Edge { src: name, dst, attrs });
                    } else {
                        let attrs = if self.peek() == Some(&Tok::LBrack) { self.attrs()? } else { vec![] };
                        self.expect(Tok::Semi)?;
                        g.nodes.push(Node { name, attrs });
                    }
                }
                other => return Err(format!("unexpected token {:?}", other)),
            }
        }
        Ok(g)
    }
}

/// Parses exactly one `digraph { ... }`.
pub fn parse(text: &str) -> Result<Graph, String> {
    let mut p = P { t: lex(text)?, i: 0 };
    match p.next() {
        Some(Tok::Id(s)) if s == "digraph" => {}
        other => return Err(format!("expected digraph, found {:?}", other)),
    }
    let g = p.body()?;
    if p.i != p.t.len() {
        return Err("trailing content after the digraph (more than one graph in the file?)".into());
    }
    Ok(g)
}

fn attr<'a>(a: &'a [(String, String)], k: &str) -> Option<&'a str> {
    a.iter().find(|(x, _)| x == k).map(|(_, v)| v.as_str())
}

/// Decodes one (sub)graph into the protocol line `nodes n (id kind tid)* edges m (src dst cc)*`.
/// Node names are `<prefix><id>`.
pub fn decode(g: &Graph, prefix: &str) -> Result<String, String> {
    use std::fmt::Write;
    let mut out = String::new();
    let id_of = |name: &str| -> Result<usize, String> {
        name.strip_prefix(prefix).and_then(|s| s.parse::<usize>().ok()).ok_or(format!("bad node name {:?}", name))
    };
    let mut nodes: Vec<(usize, usize, usize)> = Vec::new();
    for n in &g.nodes {
        let id = id_of(&n.name)?;
        let label = attr(&n.attrs, "label").ok_or("node without label")?;
        // the kind of a node is read from its label and number only (colours, shapes and other
        // attributes are cosmetics): `<id> T<tid>` = accepting, `<id>` on node 0 = start, else plain
        let want = format!("{} T", id);
        let (kind, tid) = match label.strip_prefix(&want).and_then(|s| s.parse::<usize>().ok()) {
            Some(t) => (2, t),
            None => {
                if label != id.to_string() {
                    return Err(format!("node label {:?} for node {}", label, id));
                }
                (if id == 0 { 1 } else { 0 }, 0)
            }
        };
        nodes.push((id, kind, tid));
    }
    // canonical order: the picture is a set of nodes and a set of edges
    nodes.sort();
    let _ = write!(out, " {}", nodes.len());
    for (id, kind, tid) in nodes {
        let _ = write!(out, " {} {} {}", id, kind, tid);
    }
    let mut edges: Vec<(usize, usize, usize)> = Vec::new();
    for e in &g.edges {
        let label = attr(&e.attrs, "label").ok_or("edge without label")?;
        // "<class text> (C#<id>)"
        let p = label.rfind(" (C#").ok_or(format!("edge label {:?}", label))?;
        let cc = label[p + 4..].strip_suffix(')').and_then(|s| s.parse::<usize>().ok()).ok_or(format!("edge label {:?}", label))?;
        edges.push((id_of(&e.src)?, id_of(&e.dst)?, cc));
    }
    edges.sort();
    let _ = write!(out, " {}", edges.len());
    for (a, b, c) in edges {
        let _ = write!(out, " {} {} {}", a, b, c);
    }
    Ok(out)
}
