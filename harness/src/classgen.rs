//! Generator of bracketed class expressions and serialisation of their regex-syntax AST.
use crate::astser::RefCache;
use crate::proto::Ranges;
use crate::rng::Rng;
use regex_syntax::ast::{
    parse::Parser, Ast, ClassAsciiKind, ClassBracketed, ClassPerlKind, ClassSet, ClassSetBinaryOpKind,
    ClassSetItem, ClassUnicodeKind, LiteralKind,
};
use std::collections::HashMap;
use std::fmt::Write;
use std::sync::Arc;

const LITS: [&str; 16] = ["a", "b", "c", "z", "é", "€", "𝄞", "\\n", "\\x20", "0", "_", "\\-", "\\]", "\\\\", "A", "\\u{10FFFF}"];
const RANGES: [&str; 10] = ["a-c", "b-é", "a-a", "0-9", "A-Z", "c-d", "€-𝄞", "\\x00-\\x1F", "x-z", "\\u{D7FF}-\\u{E000}"];
const PERL: [&str; 6] = ["\\d", "\\D", "\\s", "\\S", "\\w", "\\W"];
const ASCII: [&str; 18] = [
    "[:alpha:]", "[:^alpha:]", "[:digit:]", "[:alnum:]", "[:space:]", "[:upper:]", "[:lower:]", "[:punct:]",
    "[:xdigit:]", "[:word:]", "[:cntrl:]", "[:blank:]", "[:graph:]", "[:print:]", "[:ascii:]", "[:^digit:]",
    "[:^space:]", "[:^word:]",
];
const UNICODE: [&str; 14] = [
    "\\pL", "\\PL", "\\pN", "\\PN", "\\pZ", "\\pP", "\\pC", "\\p{Lowercase}", "\\P{Lowercase}", "\\p{Uppercase}",
    "\\p{Alphabetic}", "\\p{White_Space}", "\\p{Hex_Digit}", "\\P{Math}",
];

fn gen_item(r: &mut Rng, depth: usize, dot: bool) -> String {
    match r.below(100) {
        0..=29 => {
            if dot && r.chance(25) {
                ".".to_string()
            } else {
                r.pick(&LITS).to_string()
            }
        }
        30..=49 => r.pick(&RANGES).to_string(),
        50..=61 => r.pick(&PERL).to_string(),
        62..=73 => r.pick(&ASCII).to_string(),
        74..=83 => r.pick(&UNICODE).to_string(),
        _ => {
            if depth == 0 {
                r.pick(&LITS).to_string()
            } else {
                gen_bracket(r, depth - 1, dot)
            }
        }
    }
}

fn gen_union(r: &mut Rng, depth: usize, dot: bool) -> String {
    let n = r.range(1, 4);
    (0..n).map(|_| gen_item(r, depth, dot)).collect()
}

/// `[...]` possibly negated, a union or a binary operation.
pub fn gen_bracket(r: &mut Rng, depth: usize, dot: bool) -> String {
    let neg = if r.chance(35) { "^" } else { "" };
    if depth > 0 && r.chance(40) {
        let op = *r.pick(&["&&", "--", "~~"]);
        let lhs = if r.chance(50) { gen_bracket(r, depth - 1, dot) } else { gen_union(r, depth - 1, dot) };
        let rhs = if r.chance(60) { gen_bracket(r, depth - 1, dot) } else { gen_union(r, depth - 1, dot) };
        // now and then an empty operand (`[~~a]`, `[a--]`): decided without drawing
        let h = lhs.len() * 3 + rhs.len() + depth;
        let (lhs, rhs) = if h % 9 == 0 { (String::new(), rhs) } else if h % 9 == 1 { (lhs, String::new()) } else { (lhs, rhs) };
        format!("[{}{}{}{}]", neg, lhs, op, rhs)
    } else {
        format!("[{}{}]", neg, gen_union(r, depth, dot))
    }
}

/// Environment of named primitives of one expression: id by key (the positive stand-alone form).
#[derive(Default)]
pub struct Env {
    pub tables: Vec<Arc<Ranges>>,
    pub keys: Vec<String>,
    index: HashMap<String, usize>,
}

impl Env {
    fn intern(&mut self, standalone: &str, cache: &RefCache) -> Option<usize> {
        if let Some(i) = self.index.get(standalone) {
            return Some(*i);
        }
        let t = cache.class_leaf(standalone)?;
        self.tables.push(t);
        self.keys.push(standalone.to_string());
        self.index.insert(standalone.to_string(), self.tables.len() - 1);
        Some(self.tables.len() - 1)
    }
}

fn ascii_name(k: &ClassAsciiKind) -> &'static str {
    match k {
        ClassAsciiKind::Alnum => "alnum",
        ClassAsciiKind::Alpha => "alpha",
        ClassAsciiKind::Ascii => "ascii",
        ClassAsciiKind::Blank => "blank",
        ClassAsciiKind::Cntrl => "cntrl",
        ClassAsciiKind::Digit => "digit",
        ClassAsciiKind::Graph => "graph",
        ClassAsciiKind::Lower => "lower",
        ClassAsciiKind::Print => "print",
        ClassAsciiKind::Punct => "punct",
        ClassAsciiKind::Space => "space",
        ClassAsciiKind::Upper => "upper",
        ClassAsciiKind::Word => "word",
        ClassAsciiKind::Xdigit => "xdigit",
    }
}

pub fn ser_item(it: &ClassSetItem, env: &mut Env, cache: &RefCache, out: &mut String) -> Option<()> {
    match it {
        ClassSetItem::Empty(_) => out.push_str(" e"),
        ClassSetItem::Literal(l) => {
            let vd = l.c == '.' && l.kind == LiteralKind::Verbatim;
            let _ = write!(out, " l {} {}", l.c as u32, vd as u8);
        }
        ClassSetItem::Range(r) => {
            let _ = write!(out, " r {} {}", r.start.c as u32, r.end.c as u32);
        }
        ClassSetItem::Ascii(a) => {
            let id = env.intern(&format!("[[:{}:]]", ascii_name(&a.kind)), cache)?;
            let _ = write!(out, " n {} {}", id, a.negated as u8);
        }
        ClassSetItem::Unicode(u) => {
            let pos = match &u.kind {
                ClassUnicodeKind::OneLetter(c) => format!("\\p{}", c),
                ClassUnicodeKind::Named(n) => format!("\\p{{{}}}", n),
                ClassUnicodeKind::NamedValue { .. } => return None,
            };
            let id = env.intern(&pos, cache)?;
            let _ = write!(out, " n {} {}", id, u.is_negated() as u8);
        }
        ClassSetItem::Perl(p) => {
            let pos = match p.kind {
                ClassPerlKind::Digit => "\\d",
                ClassPerlKind::Space => "\\s",
                ClassPerlKind::Word => "\\w",
            };
            let id = env.intern(pos, cache)?;
            let _ = write!(out, " n {} {}", id, p.negated as u8);
        }
        ClassSetItem::Bracketed(b) => {
            let _ = write!(out, " b {}", b.negated as u8);
            ser_set(&b.kind, env, cache, out)?;
        }
        ClassSetItem::Union(u) => {
            // left fold: ((e | i1) | i2) | ...
            for _ in 0..u.items.len() {
                out.push_str(" u");
            }
            out.push_str(" e");
            for i in &u.items {
                ser_item(i, env, cache, out)?;
            }
        }
    }
    Some(())
}

pub fn ser_set(s: &ClassSet, env: &mut Env, cache: &RefCache, out: &mut String) -> Option<()> {
    match s {
        ClassSet::Item(i) => {
            out.push_str(" I");
            ser_item(i, env, cache, out)
        }
        ClassSet::BinaryOp(b) => {
            let k = match b.kind {
                ClassSetBinaryOpKind::Intersection => 0,
                ClassSetBinaryOpKind::Difference => 1,
                ClassSetBinaryOpKind::SymmetricDifference => 2,
            };
            let _ = write!(out, " O {}", k);
            ser_set(&b.lhs, env, cache, out)?;
            ser_set(&b.rhs, env, cache, out)
        }
    }
}

/// Parses a class text with regex-syntax; returns the bracketed class if it is one.
pub fn parse_bracketed(text: &str) -> Option<ClassBracketed> {
    match &Parser::new().parse(text).ok()? {
        Ast::ClassBracketed(b) => Some((**b).clone()),
        _ => None,
    }
}
