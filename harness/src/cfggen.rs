//! Generator of scanner configurations (modes, patterns, lookaheads, transitions) and inputs.
use crate::regen::{self, GenCfg, ALPHABET};
use crate::rng::Rng;
use scnr::verif::ScannerDump;
use scnr::{Lookahead, Pattern, ScannerMode};
use std::sync::Arc;

#[derive(Clone, Debug)]
pub struct PatSpec {
    pub pattern: String,
    pub tid: usize,
    pub lookahead: Option<(bool, String)>,
}

#[derive(Clone, Debug)]
pub struct ModeSpec {
    pub name: String,
    pub patterns: Vec<PatSpec>,
    pub transitions: Vec<(usize, usize)>,
}

pub fn to_modes(spec: &[ModeSpec]) -> Vec<ScannerMode> {
    spec.iter()
        .map(|m| {
            ScannerMode::new(
                &m.name,
                m.patterns.iter().map(|p| {
                    let pat = Pattern::new(p.pattern.clone(), p.tid);
                    match &p.lookahead {
                        Some((pos, la)) => pat.with_lookahead(Lookahead::new(*pos, la.clone())),
                        None => pat,
                    }
                }),
                m.transitions.clone(),
            )
        })
        .collect()
}

/// The same configuration read through serde (the deserializer accepts transition tables that
/// `ScannerMode::new` would reject in a debug build: unsorted, duplicate token types).
pub fn to_modes_json(spec: &[ModeSpec]) -> Option<Vec<ScannerMode>> {
    let v: Vec<serde_json::Value> = spec
        .iter()
        .map(|m| {
            serde_json::json!({
                "name": m.name,
                "patterns": m.patterns.iter().map(|p| {
                    let mut o = serde_json::json!({ "pattern": p.pattern, "token_type": p.tid });
                    if let Some((pos, la)) = &p.lookahead {
                        o["lookahead"] = serde_json::json!({ "is_positive": pos, "pattern": la });
                    }
                    o
                }).collect::<Vec<_>>(),
                "transitions": m.transitions.iter().map(|t| serde_json::json!([t.0, t.1])).collect::<Vec<_>>(),
            })
        })
        .collect();
    serde_json::from_value(serde_json::Value::Array(v)).ok()
}

/// Characters at the boundaries of the UTF-8 length classes, code points whose low byte / low 16 or
/// 20 bits alias ASCII letters and line breaks, separators and a combining mark.
pub const EXOTIC: [char; 22] = [
    '\u{80}', '\u{ff}', '\u{100}', '\u{7ff}', '\u{800}', '\u{ffff}', '\u{10000}', '\u{10ffff}', '\r', '\u{2028}',
    '\u{2029}', '\u{301}', '\u{4e0a}', '\u{10a}', '\u{1f60a}', '\u{10061}', '\u{100061}', '\u{100062}', '\u{10062}',
    '\u{131}', '\u{161}', '\u{7f}',
];

/// Inserts a few exotic characters at random places (separate generator state).
pub fn sprinkle_exotic(r: &mut Rng, input: &str) -> String {
    let cs: Vec<char> = input.chars().collect();
    let mut out = String::new();
    for (i, c) in cs.iter().enumerate() {
        if r.chance(8) || (i == 0 && r.chance(20)) {
            out.push(*r.pick(&EXOTIC));
            if r.chance(30) {
                // directly followed by the character it aliases with
                out.push(*r.pick(&['a', 'b', '\n']));
            }
        }
        out.push(*c);
    }
    if r.chance(30) {
        out.push(*r.pick(&EXOTIC));
    }
    out
}

/// U+0000 at the start and at a few other places (the "no value yet" encoding of many memo
/// tables; a character most classes written with a negation contain).
pub fn inject_nul(r: &mut Rng, input: &str) -> String {
    let cs: Vec<char> = input.chars().collect();
    let mut out = String::new();
    if r.chance(70) {
        out.push('\0');
    }
    for c in cs {
        out.push(c);
        if r.chance(10) {
            out.push('\0');
        }
    }
    out
}

pub struct ProgCfg {
    pub max_modes: usize,
    pub max_patterns: usize,
    /// percent of patterns carrying a lookahead
    pub lookahead: usize,
    /// allow patterns that match the empty string
    pub nullable: bool,
    pub transitions: bool,
    pub big_tids: bool,
}

/// Token types: unique within a mode (see DESIGN F2), possibly shared between modes.
pub fn gen_program(r: &mut Rng, pc: &ProgCfg) -> Vec<ModeSpec> {
    let gc = GenCfg::default();
    let n_modes = r.range(1, pc.max_modes);
    let mut modes = Vec::new();
    for m in 0..n_modes {
        let n_pat = r.range(1, pc.max_patterns);
        // token type pool
        let mut pool: Vec<usize> = (0..(pc.max_patterns + 3)).collect();
        if pc.big_tids && r.chance(20) {
            pool.push(4294967296 + r.below(7));
            pool.push(70000 + r.below(5));
        }
        r.shuffle(&mut pool);
        let mut patterns = Vec::new();
        for k in 0..n_pat {
            let allow_null = pc.nullable && r.chance(25);
            let re = regen::gen_pattern(r, &gc, !allow_null);
            let lookahead = if r.chance(pc.lookahead) {
                let la = regen::gen_pattern(r, &GenCfg { depth: 1, ..GenCfg::default() }, true);
                Some((r.chance(60), la.render()))
            } else {
                None
            };
            // the same lookahead expression on several patterns of a mode, with either polarity
            // (decided without drawing from the generator)
            let prev = patterns.iter().rev().find_map(|q: &PatSpec| q.lookahead.clone());
            let h = k + re.render().len() + prev.as_ref().map(|p| p.1.len()).unwrap_or(0);
            let lookahead = match (&lookahead, prev) {
                (Some(_), Some((ppos, text))) if h % 2 == 0 => Some((!ppos, text)),
                (Some((pos, _)), Some((_, text))) if h % 4 == 1 => Some((*pos, text)),
                (None, Some((ppos, text))) if pc.lookahead >= 40 && h % 4 == 2 => Some((!ppos, text)),
                _ => lookahead,
            };
            patterns.push(PatSpec { pattern: re.render(), tid: pool[k], lookahead });
        }
        let mut transitions = Vec::new();
        if pc.transitions && n_modes > 0 {
            let mut tids: Vec<usize> = patterns.iter().map(|p| p.tid).collect();
            // sometimes a transition for a token type not produced by this mode
            if r.chance(30) {
                tids.push(pc.max_patterns + 5);
            }
            tids.sort();
            tids.dedup();
            // sometimes most transitions go to one mode (several token types, same target)
            let fav = if r.chance(40) { Some(r.below(n_modes)) } else { None };
            for t in tids {
                if r.chance(55) {
                    let to = match fav {
                        Some(f) if r.chance(75) => f,
                        _ => r.below(n_modes),
                    };
                    transitions.push((t, to));
                }
            }
        }
        modes.push(ModeSpec { name: format!("M{}", m), patterns, transitions });
    }
    modes
}

/// A member of a range table that belongs to the harness alphabet, if any, else the first member.
fn pick_member(r: &mut Rng, table: &[(u32, u32)]) -> Option<char> {
    let mut members: Vec<char> = ALPHABET
        .iter()
        .cloned()
        .filter(|c| table.iter().any(|(lo, hi)| *lo <= *c as u32 && *c as u32 <= *hi))
        .collect();
    if members.is_empty() || r.chance(10) {
        if let Some((lo, hi)) = table.get(r.below(table.len().max(1))) {
            let cp = if r.chance(50) { *lo } else { *hi };
            if let Some(c) = char::from_u32(cp) {
                members.push(c);
            }
        }
    }
    if members.is_empty() {
        None
    } else {
        Some(*r.pick(&members))
    }
}

/// Random walk through the automaton of a mode: produces text with prefixes in the languages.
pub fn walk(r: &mut Rng, dump: &ScannerDump, tables: &[Arc<Vec<(u32, u32)>>], mode: usize, max: usize) -> String {
    let dfa = &dump.modes[mode].dfa;
    let mut s = String::new();
    let mut st = 0usize;
    for _ in 0..max {
        let trs = &dfa.states[st];
        if trs.is_empty() {
            break;
        }
        if dfa.end_states[st].0 && r.chance(25) {
            break;
        }
        let (cc, to) = trs[r.below(trs.len())];
        match pick_member(r, &tables[cc]) {
            Some(c) => {
                s.push(c);
                st = to;
            }
            None => break,
        }
    }
    s
}

/// Input made of several walks (through random modes), noise characters and mutations.
pub fn gen_input(r: &mut Rng, dump: &ScannerDump, tables: &[Arc<Vec<(u32, u32)>>], max_pieces: usize) -> String {
    let mut s = String::new();
    let pieces = r.range(0, max_pieces);
    for _ in 0..pieces {
        match r.below(10) {
            0 => s.push(*r.pick(&ALPHABET)),
            1 => s.push(*r.pick(&['x', '\n', '\r', 'ß', '0', '_'])),
            _ => {
                let m = r.below(dump.modes.len());
                s.push_str(&walk(r, dump, tables, m, 8));
            }
        }
    }
    // mutations
    if r.chance(20) && !s.is_empty() {
        let cs: Vec<char> = s.chars().collect();
        let k = r.below(cs.len());
        s = cs[..k].iter().collect();
    }
    if r.chance(15) {
        let cs: Vec<char> = s.chars().collect();
        let k = r.below(cs.len() + 1);
        let mut t: String = cs[..k].iter().collect();
        t.push('\n');
        t.extend(cs[k..].iter());
        s = t;
    }
    s
}
