//! World histories (C12, C13, C14): builds through the cache, several scanners and live iterators.
use crate::cfggen::{self, ModeSpec};
use crate::proto;
use crate::real::{fmt_peek};
use crate::rng::Rng;
use scnr::{FindMatches, Scanner, ScannerBuilder, ScannerMode, ScannerModeSwitcher};
use std::collections::HashMap;
use std::fmt::Write;
use std::panic::{catch_unwind, AssertUnwindSafe};

#[derive(Clone, Debug)]
pub enum WOp {
    Build { s: usize, cfg: usize },
    BuildU { s: usize, cfg: usize },
    SSetMode { s: usize, m: usize },
    SCurMode { s: usize },
    FindIter { s: usize, k: usize, input: usize },
    Next { k: usize },
    Peek { k: usize, n: usize },
    SetOff { k: usize, o: usize },
    ISetMode { k: usize, m: usize },
    ICurMode { k: usize },
    Drop { k: usize },
}

/// Identity of compilations by equality of their dumps (canonical text).
#[derive(Default)]
pub struct CompIds {
    pub ids: HashMap<String, usize>,
}

impl CompIds {
    pub fn id_of(&mut self, s: &Scanner) -> usize {
        let mut d = s.verif_dump();
        d.current_mode = 0;
        let key = format!("{:?}", d);
        let n = self.ids.len();
        *self.ids.entry(key).or_insert(n)
    }
}

pub struct RealWorld {
    pub cfgs: Vec<Vec<ScannerMode>>,
    pub inputs: Vec<&'static str>,
    pub scanners: HashMap<usize, Scanner>,
    pub iters: HashMap<usize, FindMatches<'static>>,
    /// a scanner shared between threads (slot 99), used through `&Scanner` only
    pub shared: Option<std::sync::Arc<Scanner>>,
    pub flip: bool,
}

impl RealWorld {
    pub fn new(cfgs: &[Vec<ModeSpec>], inputs: &[String]) -> Self {
        RealWorld {
            cfgs: cfgs.iter().map(|c| cfggen::to_modes(c)).collect(),
            inputs: inputs.iter().map(|s| &*Box::leak(s.clone().into_boxed_str())).collect(),
            scanners: HashMap::new(),
            iters: HashMap::new(),
            shared: None,
            flip: false,
        }
    }

    /// A build without touching the harness' id table: returns the canonical dump text.
    pub fn exec_build_unlocked(&mut self, op: &WOp) -> (String, Result<Option<String>, ()>) {
        let (s, cfg, cached) = match op {
            WOp::Build { s, cfg } => (*s, *cfg, true),
            WOp::BuildU { s, cfg } => (*s, *cfg, false),
            _ => unreachable!(),
        };
        let modes = self.cfgs[cfg].clone();
        let r = catch_unwind(AssertUnwindSafe(|| {
            let b = ScannerBuilder::new().add_scanner_modes(&modes);
            if cached { b.build() } else { b.build_uncached() }
        }));
        let line = format!("{} {} {}", if cached { "wbuild" } else { "wbuildu" }, s, cfg);
        match r {
            Err(_) => (line, Err(())),
            Ok(Err(_)) => (line, Ok(None)),
            Ok(Ok(sc)) => {
                let mut d = sc.verif_dump();
                d.current_mode = 0;
                let key = format!("{:?}", d);
                self.scanners.insert(s, sc);
                (line, Ok(Some(key)))
            }
        }
    }

    /// Executes one operation on the real crate; returns the op line and the result line (if any).
    pub fn exec(&mut self, op: &WOp, comps: &mut CompIds) -> (String, Option<String>) {
        match op {
            WOp::Build { s, cfg } | WOp::BuildU { s, cfg } => {
                let cached = matches!(op, WOp::Build { .. });
                let modes = self.cfgs[*cfg].clone();
                let r = catch_unwind(AssertUnwindSafe(|| {
                    let b = ScannerBuilder::new().add_scanner_modes(&modes);
                    if cached { b.build() } else { b.build_uncached() }
                }));
                let line = format!("{} {} {}", if cached { "wbuild" } else { "wbuildu" }, s, cfg);
                match r {
                    Err(_) => (line, Some("panic".into())),
                    Ok(Err(_)) => (line, Some("builderr".into())),
                    Ok(Ok(sc)) => {
                        let id = comps.id_of(&sc);
                        self.scanners.insert(*s, sc);
                        (line, Some(format!("built {}", id)))
                    }
                }
            }
            WOp::SSetMode { s, m } => {
                let line = format!("wsetmode {} {}", s, m);
                match self.scanners.get_mut(s) {
                    Some(sc) => {
                        sc.set_mode(*m);
                        (line, None)
                    }
                    None => (line, Some("invalid".into())),
                }
            }
            WOp::SCurMode { s } => {
                let r = self.scanners.get(s).map(|sc| sc.current_mode());
                (format!("wcurmode {}", s), Some(match r { Some(m) => format!("mode {}", m), None => "invalid".into() }))
            }
            WOp::FindIter { s, k, input } => {
                let line = format!("wfinditer {} {}{}", s, k, proto::cps(self.inputs[*input]));
                if *s == 99 {
                    if let Some(sh) = &self.shared {
                        let it = sh.find_iter(self.inputs[*input]);
                        self.iters.insert(*k, it);
                        return (line, None);
                    }
                }
                match self.scanners.get(s) {
                    Some(sc) => {
                        let it = sc.find_iter(self.inputs[*input]);
                        self.iters.insert(*k, it);
                        (line, None)
                    }
                    None => (line, Some("invalid".into())),
                }
            }
            WOp::Next { k } => {
                let line = format!("wnext {}", k);
                match self.iters.get_mut(k) {
                    None => (line, Some("invalid".into())),
                    Some(it) => match catch_unwind(AssertUnwindSafe(|| it.next())) {
                        Err(_) => (line, Some("panic".into())),
                        Ok(Some(m)) => (line, Some(format!("tok {} {} {}", m.token_type(), m.start(), m.end()))),
                        Ok(None) => (line, Some("none".into())),
                    },
                }
            }
            WOp::Peek { k, n } => {
                let line = format!("wpeek {} {}", k, n);
                match self.iters.get_mut(k) {
                    None => (line, Some("invalid".into())),
                    Some(it) => match catch_unwind(AssertUnwindSafe(|| it.peek_n(*n))) {
                        Err(_) => (line, Some("panic".into())),
                        Ok(p) => (line, Some(fmt_peek(&p))),
                    },
                }
            }
            WOp::SetOff { k, o } => {
                let line = format!("wsetoff {} {}", k, o);
                // alternately `set_offset` and the consuming `with_offset` (same meaning)
                self.flip = !self.flip;
                if self.flip {
                    match self.iters.remove(k) {
                        Some(it) => match catch_unwind(AssertUnwindSafe(move || it.with_offset(*o))) {
                            Ok(n) => {
                                self.iters.insert(*k, n);
                                (line, None)
                            }
                            Err(_) => (line, Some("panic".into())),
                        },
                        None => (line, Some("invalid".into())),
                    }
                } else {
                match self.iters.get_mut(k) {
                    Some(it) => match catch_unwind(AssertUnwindSafe(|| it.set_offset(*o))) {
                        Ok(_) => (line, None),
                        Err(_) => (line, Some("panic".into())),
                    },
                    None => (line, Some("invalid".into())),
                }
                }
            }
            WOp::ISetMode { k, m } => {
                let line = format!("wisetmode {} {}", k, m);
                match self.iters.get_mut(k) {
                    Some(it) => {
                        it.set_mode(*m);
                        (line, None)
                    }
                    None => (line, Some("invalid".into())),
                }
            }
            WOp::ICurMode { k } => {
                let r = self.iters.get(k).map(|it| it.current_mode());
                (format!("wicurmode {}", k), Some(match r { Some(m) => format!("mode {}", m), None => "invalid".into() }))
            }
            WOp::Drop { k } => {
                self.iters.remove(k);
                (format!("wdrop {}", k), None)
            }
        }
    }
}

pub fn emit(out: &mut String, line: &str, res: &Option<String>) {
    let _ = writeln!(out, "{}", line);
    if let Some(r) = res {
        let _ = writeln!(out, "expect {}", r);
    }
}

/// Character boundaries of a string (for set_offset).
pub fn boundaries(s: &str) -> Vec<usize> {
    let mut b: Vec<usize> = s.char_indices().map(|(i, _)| i).collect();
    b.push(s.len());
    b
}

/// A random operation on iterators/scanners of a C12 history.
pub fn gen_c12_op(r: &mut Rng, n_scanners: usize, n_iters: usize, n_inputs: usize, n_modes: usize, inputs: &[String]) -> WOp {
    match r.below(100) {
        0..=39 => WOp::Next { k: r.below(n_iters) },
        40..=49 => WOp::Peek { k: r.below(n_iters), n: r.below(4) },
        50..=61 => WOp::FindIter { s: r.below(n_scanners), k: r.below(n_iters), input: r.below(n_inputs) },
        62..=69 => WOp::SSetMode { s: r.below(n_scanners), m: r.below(n_modes) },
        70..=74 => WOp::SCurMode { s: r.below(n_scanners) },
        75..=81 => WOp::ISetMode { k: r.below(n_iters), m: r.below(n_modes) },
        82..=86 => WOp::ICurMode { k: r.below(n_iters) },
        87..=93 => {
            let i = r.below(n_inputs);
            let b = boundaries(&inputs[i]);
            WOp::SetOff { k: r.below(n_iters), o: *r.pick(&b) }
        }
        _ => WOp::Drop { k: r.below(n_iters) },
    }
}
