//! Protocol writer: turns the dump of a real scanner into the line protocol of the Lean driver.
use scnr::verif::{DfaDump, ScannerDump};
use scnr::Scanner;
use std::collections::HashMap;
use std::fmt::Write;
use std::sync::{Arc, Mutex};

pub type Ranges = Vec<(u32, u32)>;

/// Exhaustive enumeration of all Unicode scalar values through the real match function.
/// (class id, code point) pairs on which the match function of a class panicked
pub static CLASS_PANICS: std::sync::Mutex<Vec<(usize, u32)>> = std::sync::Mutex::new(Vec::new());

pub fn class_table(scanner: &Scanner, id: usize) -> Ranges {
    let mut out: Ranges = Vec::new();
    let mut cur: Option<(u32, u32)> = None;
    let mut cp: u32 = 0;
    while cp <= 0x10FFFF {
        if (0xD800..=0xDFFF).contains(&cp) {
            // surrogates are not scalar values: close a running range
            if let Some(r) = cur.take() {
                out.push(r);
            }
            cp = 0xE000;
            continue;
        }
        let c = char::from_u32(cp).unwrap();
        let member = match std::panic::catch_unwind(std::panic::AssertUnwindSafe(|| scanner.verif_class_matches(id, c))) {
            Ok(b) => b,
            Err(_) => {
                CLASS_PANICS.lock().unwrap().push((id, cp));
                false
            }
        };
        if member {
            cur = match cur {
                Some((lo, _)) => Some((lo, cp)),
                None => Some((cp, cp)),
            };
        } else if let Some(r) = cur.take() {
            out.push(r);
        }
        cp += 1;
    }
    if let Some(r) = cur.take() {
        out.push(r);
    }
    out
}

/// Process-wide cache of class tables keyed by the printed class. The key is the text the
/// registry itself stores for the class id; the match function of an id is derived from that
/// same stored AST, so equal keys denote equal functions within one process.
#[derive(Default)]
pub struct TableCache {
    map: Mutex<HashMap<String, Arc<Ranges>>>,
    pub enumerated: Mutex<usize>,
}

impl TableCache {
    pub fn tables(&self, scanner: &Scanner, dump: &ScannerDump) -> Vec<Arc<Ranges>> {
        let mut out = Vec::new();
        for (id, key) in dump.classes.iter().enumerate() {
            // the key printed by the registry starts with "#<id> '" - strip the id
            let k = key.splitn(2, ' ').nth(1).unwrap_or(key).to_string();
            let hit = self.map.lock().unwrap().get(&k).cloned();
            let t = match hit {
                Some(t) => t,
                None => {
                    let t = Arc::new(class_table(scanner, id));
                    *self.enumerated.lock().unwrap() += 1;
                    self.map.lock().unwrap().insert(k, t.clone());
                    t
                }
            };
            out.push(t);
        }
        out
    }
}

pub fn cps(s: &str) -> String {
    let mut o = String::new();
    for c in s.chars() {
        let _ = write!(o, " {}", c as u32);
    }
    o
}

fn write_dfa(out: &mut String, d: &DfaDump) {
    out.push_str("prio");
    for t in &d.terminal_ids {
        let _ = write!(out, " {}", t);
    }
    out.push('\n');
    for (s, trs) in d.states.iter().enumerate() {
        let (e, t) = d.end_states[s];
        let _ = write!(out, "st {} {}", e as u8, t);
        for (cc, to) in trs {
            let _ = write!(out, " {} {}", cc, to);
        }
        out.push('\n');
    }
}

/// Writes `scanner`, `class`, `mode`, `name`, `dfa`, `prio`, `st` lines.
pub fn write_scanner(out: &mut String, dump: &ScannerDump, tables: &[Arc<Ranges>]) {
    out.push_str("scanner\n");
    for (id, t) in tables.iter().enumerate() {
        let _ = write!(out, "class {}", id);
        for (lo, hi) in t.iter() {
            let _ = write!(out, " {} {}", lo, hi);
        }
        out.push('\n');
    }
    for (m, mode) in dump.modes.iter().enumerate() {
        let _ = write!(out, "mode {}", m);
        for (t, to) in &mode.transitions {
            let _ = write!(out, " {} {}", t, to);
        }
        out.push('\n');
        let _ = writeln!(out, "name {}{}", m, cps(&mode.name));
        let _ = writeln!(out, "dfa m {}", m);
        write_dfa(out, &mode.dfa);
        for (tid, pos, la) in &mode.dfa.lookaheads {
            let _ = writeln!(out, "dfa la {} {} {}", m, tid, *pos as u8);
            write_dfa(out, la);
        }
    }
}
