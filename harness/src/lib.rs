pub mod cfggen;
pub mod proto;
pub mod real;
pub mod regen;
pub mod rng;
pub mod astser;
pub mod classgen;
pub mod world;
