//! C16: canonical prefix notation of serde_json value trees and tree mutations.
use crate::cfggen::ModeSpec;
use crate::rng::Rng;
use serde_json::{json, Map, Value};
use std::fmt::Write;

fn ser_str(s: &str, out: &mut String) {
    let n = s.chars().count();
    let _ = write!(out, " S {}", n);
    for c in s.chars() {
        let _ = write!(out, " {}", c as u32);
    }
}

const KNOWN: [&str; 14] = [
    "name", "patterns", "transitions", "pattern", "token_type", "lookahead", "is_positive", "span", "start", "end",
    "start_position", "end_position", "line", "column",
];

/// Canonical prefix notation; object fields in BTreeMap (string) order.
pub fn ser_value(v: &Value, out: &mut String) {
    match v {
        Value::Null => out.push_str(" N"),
        Value::Bool(true) => out.push_str(" T"),
        Value::Bool(false) => out.push_str(" F"),
        Value::Number(n) => match n.as_u64() {
            Some(u) => {
                let _ = write!(out, " I {}", u);
            }
            None => out.push_str(" X"),
        },
        Value::String(s) => ser_str(s, out),
        Value::Array(a) => {
            let _ = write!(out, " A {}", a.len());
            a.iter().for_each(|x| ser_value(x, out));
        }
        Value::Object(m) => {
            let _ = write!(out, " O {}", m.len());
            let mut keys: Vec<&String> = m.keys().collect();
            keys.sort();
            for k in keys {
                if KNOWN.contains(&k.as_str()) {
                    let _ = write!(out, " k{}", k);
                } else {
                    out.push_str(" ko");
                    let n = k.chars().count();
                    let _ = write!(out, " {}", n);
                    for c in k.chars() {
                        let _ = write!(out, " {}", c as u32);
                    }
                }
                ser_value(&m[k], out);
            }
        }
    }
}

/// The configuration in the notation of the Lean driver:
/// `n_modes (name n_pat (pattern tid (0 | 1 pos la))* n_trans (tid mode)*)*`
pub fn ser_cfg(spec: &[ModeSpec], out: &mut String) {
    let _ = write!(out, " {}", spec.len());
    for m in spec {
        ser_str(&m.name, out);
        let _ = write!(out, " {}", m.patterns.len());
        for p in &m.patterns {
            ser_str(&p.pattern, out);
            let _ = write!(out, " {}", p.tid);
            match &p.lookahead {
                None => out.push_str(" 0"),
                Some((pos, la)) => {
                    let _ = write!(out, " 1 {}", *pos as u8);
                    ser_str(la, out);
                }
            }
        }
        let _ = write!(out, " {}", m.transitions.len());
        for (t, to) in &m.transitions {
            let _ = write!(out, " {} {}", t, to);
        }
    }
}

/// The tree the README layout prescribes for a configuration (hand-built, not via Serialize).
pub fn tree_of(spec: &[ModeSpec]) -> Value {
    Value::Array(
        spec.iter()
            .map(|m| {
                json!({
                    "name": m.name,
                    "patterns": m.patterns.iter().map(|p| {
                        let mut o = Map::new();
                        o.insert("pattern".into(), json!(p.pattern));
                        o.insert("token_type".into(), json!(p.tid));
                        if let Some((pos, la)) = &p.lookahead {
                            o.insert("lookahead".into(), json!({"is_positive": pos, "pattern": la}));
                        }
                        Value::Object(o)
                    }).collect::<Vec<_>>(),
                    "transitions": m.transitions.iter().map(|(t, to)| json!([t, to])).collect::<Vec<_>>(),
                })
            })
            .collect(),
    )
}

fn pick_path<'a>(r: &mut Rng, v: &'a mut Value, depth: usize) -> &'a mut Value {
    if depth == 0 {
        return v;
    }
    let go = match v {
        Value::Array(a) => !a.is_empty(),
        Value::Object(o) => !o.is_empty(),
        _ => false,
    };
    if !go {
        return v;
    }
    match v {
        Value::Array(a) => {
            let i = r.below(a.len());
            pick_path(r, &mut a[i], depth - 1)
        }
        Value::Object(o) => {
            let keys: Vec<String> = o.keys().cloned().collect();
            let k = r.pick(&keys).clone();
            pick_path(r, o.get_mut(&k).unwrap(), depth - 1)
        }
        _ => unreachable!(),
    }
}

/// One random mutation of a tree: missing / extra / null field, wrong type, bad number.
pub fn mutate_tree(r: &mut Rng, v: &mut Value) -> &'static str {
    let depth = r.below(6);
    let node = pick_path(r, v, depth);
    match node {
        Value::Object(o) => match r.below(4) {
            0 => {
                let keys: Vec<String> = o.keys().cloned().collect();
                if let Some(k) = keys.get(r.below(keys.len().max(1))) {
                    o.remove(k);
                }
                "remove_field"
            }
            1 => {
                o.insert("extra_field".into(), json!([1, "x"]));
                "extra_field"
            }
            2 => {
                o.insert("lookahead".into(), Value::Null);
                "null_lookahead"
            }
            _ => {
                let keys: Vec<String> = o.keys().cloned().collect();
                if let Some(k) = keys.get(r.below(keys.len().max(1))) {
                    o.insert(k.clone(), json!("wrong"));
                }
                "wrong_type"
            }
        },
        Value::Number(_) => {
            *node = match r.below(4) {
                0 => json!(-1),
                1 => json!(1.5),
                2 => json!(18446744073709551615u64),
                _ => json!("7"),
            };
            "number"
        }
        Value::String(_) => {
            *node = if r.chance(50) { json!(3) } else { json!("ä\"\\\n") };
            "string"
        }
        Value::Bool(b) => {
            *node = if r.chance(50) { json!(!*b) } else { json!(0) };
            "bool"
        }
        Value::Array(a) => {
            if r.chance(50) {
                a.push(json!(1));
            } else {
                a.pop();
            }
            "array"
        }
        Value::Null => "none",
    }
}
