//! Case generator + executor of the real crate.
//! usage: harness <suite> --seed S --n N --out DIR [--threads T]
use scnr::ScannerBuilder;
use scnr_verif_harness::cfggen::{self, ModeSpec, ProgCfg};
use scnr_verif_harness::proto::{self, TableCache};
use scnr_verif_harness::real::{self, History, Profile};
use scnr_verif_harness::rng::Rng;
use std::collections::BTreeMap;
use std::fmt::Write;
use std::panic::{catch_unwind, AssertUnwindSafe};
use std::sync::Arc;

struct Args {
    suite: String,
    seed: u64,
    n: usize,
    out: String,
    threads: usize,
}

fn parse_args() -> Args {
    let a: Vec<String> = std::env::args().collect();
    let mut args = Args { suite: a[1].clone(), seed: 1, n: 100, out: ".".into(), threads: 16 };
    let mut i = 2;
    while i < a.len() {
        match a[i].as_str() {
            "--seed" => args.seed = a[i + 1].parse().unwrap(),
            "--n" => args.n = a[i + 1].parse().unwrap(),
            "--out" => args.out = a[i + 1].clone(),
            "--threads" => args.threads = a[i + 1].parse().unwrap(),
            x => panic!("unknown arg {}", x),
        }
        i += 2;
    }
    args
}

#[derive(Default)]
struct Stats {
    cases: usize,
    build_err: usize,
    build_panic: usize,
    inputs: usize,
    ops: BTreeMap<String, usize>,
    counters: BTreeMap<String, usize>,
    samples: Vec<String>,
}

impl Stats {
    fn merge(&mut self, o: Stats) {
        self.cases += o.cases;
        self.build_err += o.build_err;
        self.build_panic += o.build_panic;
        self.inputs += o.inputs;
        for (k, v) in o.ops {
            *self.ops.entry(k).or_default() += v;
        }
        for (k, v) in o.counters {
            *self.counters.entry(k).or_default() += v;
        }
        for s in o.samples {
            if self.samples.len() < 5 {
                self.samples.push(s);
            }
        }
    }
    fn count(&mut self, k: &str, n: usize) {
        *self.counters.entry(k.to_string()).or_default() += n;
    }
}

fn describe(spec: &[ModeSpec]) -> String {
    let mut s = String::new();
    for m in spec {
        let _ = write!(s, "mode {} [", m.name);
        for p in &m.patterns {
            let _ = write!(s, " {:?}#{}", p.pattern, p.tid);
            if let Some((pos, la)) = &p.lookahead {
                let _ = write!(s, "(?{}{:?})", if *pos { "=" } else { "!" }, la);
            }
        }
        let _ = write!(s, " ] trans {:?}; ", m.transitions);
    }
    s
}

fn profile_for(suite: &str) -> Profile {
    match suite {
        "C06" => Profile { next: 40, peek: 15, setmode: 15, curmode: 20, modename: 5, setoff_any: 5, ..Default::default() },
        "C07" => Profile { next: 40, nextp: 5, peek: 10, adv_after_peek: 5, adv_any: 5, setoff_any: 10, setmode: 5, off: 5, run_out: 5, ..Default::default() },
        "C09" => Profile { next: 15, nextp: 35, setoff_back: 18, pos: 22, run_out: 6, setmode: 4, ..Default::default() },
        "C10" => Profile { next: 40, peek: 15, adv_after_peek: 15, setoff_any: 20, setmode: 5, run_out: 5, ..Default::default() },
        "C11" => Profile { next: 35, peek: 40, setmode: 8, setoff_any: 7, curmode: 5, off: 5, ..Default::default() },
        _ => Profile { next: 50, peek: 10, setoff_any: 10, setmode: 5, curmode: 5, pos: 5, nextp: 10, run_out: 5, ..Default::default() },
    }
}

/// find-level suite: model finder on the dump vs the real `find_from` at every boundary and the
/// real token stream.
fn case_find(seed: u64, idx: usize, suite: &str, cache: &TableCache, out: &mut String, st: &mut Stats) {
    let mut r = Rng::derive(seed, idx as u64);
    let pc = match suite {
        "C01" => ProgCfg { max_modes: 1, max_patterns: 6, lookahead: 0, nullable: true, transitions: false, big_tids: true },
        "C04" | "C05" => ProgCfg { max_modes: 1, max_patterns: 5, lookahead: 55, nullable: true, transitions: false, big_tids: false },
        _ => ProgCfg { max_modes: 2, max_patterns: 5, lookahead: 30, nullable: true, transitions: true, big_tids: true },
    };
    let spec = cfggen::gen_program(&mut r, &pc);
    let modes = cfggen::to_modes(&spec);
    st.cases += 1;
    let built = catch_unwind(AssertUnwindSafe(|| {
        ScannerBuilder::new().add_scanner_modes(&modes).build_uncached()
    }));
    let scanner = match built {
        Err(_) => {
            st.build_panic += 1;
            let _ = writeln!(out, "case {}", idx);
            let _ = writeln!(out, "expect buildpanic");
            let _ = writeln!(out, "# {}", describe(&spec).replace('\n', "\\n"));
            return;
        }
        Ok(Err(_)) => {
            st.build_err += 1;
            return;
        }
        Ok(Ok(s)) => s,
    };
    let dump = scanner.verif_dump();
    let tables = cache.tables(&scanner, &dump);
    let _ = writeln!(out, "case {}", idx);
    let _ = writeln!(out, "expect case {}", idx);
    let _ = writeln!(out, "# {}", describe(&spec).replace('\n', "\\n"));
    proto::write_scanner(out, &dump, &tables);
    out.push_str("wf\nexpect wf 1\n");
    out.push_str("finder model\n");
    let n_inputs = 6;
    for _ in 0..n_inputs {
        let input = cfggen::gen_input(&mut r, &dump, &tables, 6);
        st.inputs += 1;
        let _ = writeln!(out, "input{}", proto::cps(&input));
        for m in 0..dump.modes.len() {
            let _ = writeln!(out, "findall {}", m);
            let real = real::findall(&scanner, m, &input);
            let found = real.matches(':').count() / 2;
            st.count("find_positions", real.split(' ').count() - 1);
            st.count("find_some", found);
            let _ = writeln!(out, "expect {}", real);
        }
        // token stream
        out.push_str("new 0\n");
        let mut h = History::new(&scanner, &input, 0, dump.modes.len());
        let p = Profile { run_out: 1, ..Default::default() };
        h.step(&mut r, &p, out);
        // fused: one more next
        let p = Profile { next: 1, ..Default::default() };
        h.step(&mut r, &p, out);
        if st.samples.len() < 3 {
            st.samples.push(format!("{} input {:?}", describe(&spec), input));
        }
    }
}

/// iterator suite in oracle-finder mode: the Lean iterator runs on the table of real find_from
/// results; histories of operations according to the profile of the property.
fn case_iter(seed: u64, idx: usize, suite: &str, cache: &TableCache, out: &mut String, st: &mut Stats) {
    let mut r = Rng::derive(seed, idx as u64);
    let pc = ProgCfg { max_modes: 4, max_patterns: 4, lookahead: 15, nullable: true, transitions: true, big_tids: false };
    let mut spec = cfggen::gen_program(&mut r, &pc);
    if suite == "C09" {
        // tokens that span line breaks, in some modes
        const MULTILINE: [&str; 6] = ["[^b]+", "(?:\\n|a)+", "\\n+", "\\s+", "a[^c]*c", "(?:.|\\n){2,3}"];
        for m in spec.iter_mut() {
            if r.chance(60) {
                let tid = m.patterns.iter().map(|p| p.tid).max().unwrap_or(0) + 1;
                let pos = r.below(m.patterns.len() + 1);
                m.patterns.insert(pos, cfggen::PatSpec { pattern: r.pick(&MULTILINE).to_string(), tid, lookahead: None });
            }
        }
    }
    let modes = cfggen::to_modes(&spec);
    st.cases += 1;
    let built = catch_unwind(AssertUnwindSafe(|| {
        ScannerBuilder::new().add_scanner_modes(&modes).build_uncached()
    }));
    let scanner = match built {
        Err(_) => {
            st.build_panic += 1;
            let _ = writeln!(out, "case {}", idx);
            let _ = writeln!(out, "expect buildpanic");
            let _ = writeln!(out, "# {}", describe(&spec).replace('\n', "\\n"));
            return;
        }
        Ok(Err(_)) => {
            st.build_err += 1;
            return;
        }
        Ok(Ok(s)) => s,
    };
    let dump = scanner.verif_dump();
    let tables = cache.tables(&scanner, &dump);
    let desc = describe(&spec).replace('\n', "\\n");
    let _ = writeln!(out, "case {}", idx);
    let _ = writeln!(out, "expect case {}", idx);
    let _ = writeln!(out, "# {}", desc);
    // configuration only (modes, names, transitions); the automata are not needed for the table finder
    out.push_str("scanner\n");
    // the configured transitions and names (not the compiled ones): the property speaks about the
    // configuration
    for (m, mode) in spec.iter().enumerate() {
        let _ = write!(out, "mode {}", m);
        for (t, to) in &mode.transitions {
            let _ = write!(out, " {} {}", t, to);
        }
        out.push('\n');
        let _ = writeln!(out, "name {}{}", m, proto::cps(&mode.name));
    }
    out.push_str("finder table\n");
    let profile = profile_for(suite);
    for _ in 0..3 {
        let mut input = cfggen::gen_input(&mut r, &dump, &tables, 8);
        if suite == "C09" && r.chance(60) {
            // more line breaks
            let cs: Vec<char> = input.chars().collect();
            let mut t = String::new();
            for c in cs {
                t.push(c);
                if r.chance(20) {
                    t.push('\n');
                }
            }
            input = t;
        }
        st.inputs += 1;
        let _ = writeln!(out, "input{}", proto::cps(&input));
        for m in 0..dump.modes.len() {
            let tbl = match catch_unwind(AssertUnwindSafe(|| scanner.verif_find_table(m, &input))) {
                Ok(t) => t,
                Err(_) => {
                    let _ = writeln!(out, "curmode 0");
                    let _ = writeln!(out, "expect findpanic");
                    return;
                }
            };
            for (p, mm) in tbl {
                if let Some(mm) = mm {
                    let _ = writeln!(out, "tbl {} {} {} {}", m, p, mm.token_type(), mm.end() - mm.start());
                }
            }
        }
        out.push_str("new 0\n");
        let mut h = History::new(&scanner, &input, 0, dump.modes.len());
        let n_ops = if suite == "C09" { r.range(8, 40) } else { r.range(4, 25) };
        for _ in 0..n_ops {
            if h.dead {
                break;
            }
            let name = h.step(&mut r, &profile, out);
            *st.ops.entry(name.to_string()).or_default() += 1;
        }
        if st.samples.len() < 3 {
            st.samples.push(format!("{} input {:?}", desc, input));
        }
    }
}

fn main() {
    // silence panic messages of caught panics
    std::panic::set_hook(Box::new(|_| {}));
    let args = parse_args();
    let cache = Arc::new(TableCache::default());
    let threads = args.threads.max(1);
    let n = args.n;
    let mut chunks: Vec<(String, Stats)> = Vec::new();
    std::thread::scope(|s| {
        let mut handles = Vec::new();
        for t in 0..threads {
            let cache = cache.clone();
            let suite = args.suite.clone();
            let seed = args.seed;
            handles.push(s.spawn(move || {
                let mut out = String::new();
                let mut st = Stats::default();
                let mut idx = t;
                while idx < n {
                    match suite.as_str() {
                        "C01" | "C04" | "C05" | "find" => case_find(seed, idx, &suite, &cache, &mut out, &mut st),
                        _ => case_iter(seed, idx, &suite, &cache, &mut out, &mut st),
                    }
                    idx += threads;
                }
                (out, st)
            }));
        }
        for h in handles {
            chunks.push(h.join().unwrap());
        }
    });
    let mut all = String::new();
    let mut stats = Stats::default();
    for (o, s) in chunks {
        all.push_str(&o);
        stats.merge(s);
    }
    std::fs::create_dir_all(&args.out).unwrap();
    std::fs::write(format!("{}/ops.in", args.out), all).unwrap();
    let j = serde_json::json!({
        "suite": args.suite, "seed": args.seed, "cases": stats.cases, "build_err": stats.build_err,
        "build_panic": stats.build_panic, "inputs": stats.inputs, "ops": stats.ops,
        "counters": stats.counters, "samples": stats.samples,
        "class_tables_enumerated": *cache.enumerated.lock().unwrap(),
    });
    std::fs::write(format!("{}/stats.json", args.out), serde_json::to_string_pretty(&j).unwrap()).unwrap();
}
