//! Case generator + executor of the real crate.
//! usage: harness <suite> --seed S --n N --out DIR [--threads T]
use scnr::ScannerBuilder;
use scnr_verif_harness::astser::{self, RefCache, RefTables};
use scnr_verif_harness::cfggen::{self, ModeSpec, PatSpec, ProgCfg};
use scnr_verif_harness::buildgen;
use scnr_verif_harness::classgen;
use scnr_verif_harness::dotparse;
use scnr_verif_harness::jsonser;
use scnr_verif_harness::world::{self, CompIds, RealWorld, WOp};
use scnr_verif_harness::proto::{self, TableCache};
use scnr_verif_harness::real::{self, History, Profile};
use scnr_verif_harness::rng::Rng;
use std::collections::BTreeMap;
use std::fmt::Write;
use std::panic::{catch_unwind, AssertUnwindSafe};
use std::sync::Arc;

struct Args {
    suite: String,
    seed: u64,
    n: usize,
    out: String,
    threads: usize,
    /// generate only these case indices (replay / corpus)
    only: Option<Vec<usize>>,
}

fn parse_args() -> Args {
    let a: Vec<String> = std::env::args().collect();
    let mut args = Args { suite: a[1].clone(), seed: 1, n: 100, out: ".".into(), threads: 16, only: None };
    let mut i = 2;
    while i < a.len() {
        match a[i].as_str() {
            "--seed" => args.seed = a[i + 1].parse().unwrap(),
            "--n" => args.n = a[i + 1].parse().unwrap(),
            "--out" => args.out = a[i + 1].clone(),
            "--threads" => args.threads = a[i + 1].parse().unwrap(),
            "--only" => args.only = Some(a[i + 1].split(',').filter_map(|x| x.parse().ok()).collect()),
            x => panic!("unknown arg {}", x),
        }
        i += 2;
    }
    args
}

#[derive(Default)]
struct Stats {
    cases: usize,
    build_err: usize,
    build_panic: usize,
    inputs: usize,
    ops: BTreeMap<String, usize>,
    counters: BTreeMap<String, usize>,
    samples: Vec<String>,
}

impl Stats {
    fn merge(&mut self, o: Stats) {
        self.cases += o.cases;
        self.build_err += o.build_err;
        self.build_panic += o.build_panic;
        self.inputs += o.inputs;
        for (k, v) in o.ops {
            *self.ops.entry(k).or_default() += v;
        }
        for (k, v) in o.counters {
            *self.counters.entry(k).or_default() += v;
        }
        for s in o.samples {
            if self.samples.len() < 5 {
                self.samples.push(s);
            }
        }
    }
    fn count(&mut self, k: &str, n: usize) {
        *self.counters.entry(k.to_string()).or_default() += n;
    }
}

fn describe(spec: &[ModeSpec]) -> String {
    let mut s = String::new();
    for m in spec {
        let _ = write!(s, "mode {} [", m.name);
        for p in &m.patterns {
            let _ = write!(s, " {:?}#{}", p.pattern, p.tid);
            if let Some((pos, la)) = &p.lookahead {
                let _ = write!(s, "(?{}{:?})", if *pos { "=" } else { "!" }, la);
            }
        }
        let _ = write!(s, " ] trans {:?}; ", m.transitions);
    }
    s
}

fn profile_for(suite: &str) -> Profile {
    match suite {
        "C06" => Profile { next: 40, peek: 15, setmode: 15, curmode: 20, modename: 5, setoff_any: 5, withoff: 4, ..Default::default() },
        "C07" => Profile { next: 40, nextp: 5, peek: 10, adv_after_peek: 5, adv_any: 5, setoff_any: 10, setmode: 5, off: 5, run_out: 5, ..Default::default() },
        "C09" => Profile { next: 15, nextp: 35, setoff_back: 18, pos: 22, run_out: 6, setmode: 4, peek: 8, ..Default::default() },
        "C04" | "C05" => Profile { next: 40, peek: 15, setoff_any: 15, setoff_back: 8, setmode: 10, run_out: 6, curmode: 3, ..Default::default() },
        "C10" => Profile { next: 40, peek: 15, adv_after_peek: 15, setoff_any: 15, withoff: 8, setmode: 8, run_out: 5, ..Default::default() },
        "C11" => Profile { next: 35, peek: 40, setmode: 8, setoff_any: 7, curmode: 5, off: 5, pos: 8, nextp: 6, ..Default::default() },
        _ => Profile { next: 50, peek: 10, setoff_any: 10, setmode: 5, curmode: 5, pos: 5, nextp: 10, run_out: 5, ..Default::default() },
    }
}

/// find-level suite: model finder on the dump vs the real `find_from` at every boundary and the
/// real token stream.
/// C01: more than 128 character classes in one scanner (one single-character pattern each, built
/// through `add_patterns`: token type = index); every character must be its own pattern's token.
fn c01_many_classes(seed: u64, idx: usize, out: &mut String, st: &mut Stats) {
    let mut r = Rng::derive(seed ^ 0x0c01_c1a5, idx as u64);
    st.cases += 1;
    let pool: Vec<char> = ('!'..='~').filter(|c| c.is_ascii_alphanumeric()).chain("äöüßéèêñçøåæœþðđłšžčřňťďľĺŕ".chars()).chain('α'..='ω').chain('а'..='я').collect();
    let n = 129 + r.below(20);
    let mut chars = pool.clone();
    r.shuffle(&mut chars);
    chars.truncate(n.min(chars.len()));
    let pats: Vec<String> = chars.iter().map(|c| c.to_string()).collect();
    let _ = writeln!(out, "case {}\nexpect case {}\n# {} single-character patterns through add_patterns", idx, idx, pats.len());
    let built = catch_unwind(AssertUnwindSafe(|| ScannerBuilder::new().add_patterns(pats.clone()).build()));
    let scanner = match built {
        Ok(Ok(s)) => s,
        Ok(Err(e)) => {
            let _ = writeln!(out, "oracle FAIL {} single-character patterns are rejected: {}\nexpect oracle", pats.len(), e.to_string().replace('\n', " "));
            return;
        }
        Err(_) => {
            out.push_str("expect buildpanic\n");
            return;
        }
    };
    st.count("scanners_with_more_than_128_classes", 1);
    // every pattern character, and some that are no pattern, in random order
    let mut text: Vec<char> = chars.clone();
    text.extend(['#', ' ', '\u{7f}', '€']);
    r.shuffle(&mut text);
    let input: String = text.iter().collect();
    let real: Vec<(usize, usize, usize)> = match catch_unwind(AssertUnwindSafe(|| {
        scanner.find_iter(&input).take(input.len() + 2).map(|m| (m.token_type(), m.start(), m.end())).collect::<Vec<_>>()
    })) {
        Ok(v) => v,
        Err(_) => {
            out.push_str("oracle FAIL scanning panicked\nexpect oracle\n");
            return;
        }
    };
    let mut exp = Vec::new();
    let mut at = 0;
    for c in &text {
        if let Some(k) = chars.iter().position(|x| x == c) {
            exp.push((k, at, at + c.len_utf8()));
        }
        at += c.len_utf8();
    }
    st.inputs += 1;
    if real == exp {
        out.push_str("oracle ok\nexpect oracle\n");
    } else {
        let k = real.iter().zip(exp.iter()).position(|(a, b)| a != b).unwrap_or(real.len().min(exp.len()));
        let _ = writeln!(out, "oracle FAIL token #{}: {:?}; the longest-match rule prescribes {:?} (every character is the pattern with its index)\nexpect oracle", k, real.get(k), exp.get(k));
    }
}

/// C01: inputs of more than 2^16 characters (words, numbers, blanks): the token stream is the
/// concatenation of the tokens of the pieces.
fn c01_long_input(seed: u64, idx: usize, out: &mut String, st: &mut Stats) {
    let mut r = Rng::derive(seed ^ 0x0c01_1046, idx as u64);
    st.cases += 1;
    let _ = writeln!(out, "case {}\nexpect case {}\n# inputs around and beyond 65536 characters", idx, idx);
    let pats = vec!["[a-z]+".to_string(), "[0-9]+".to_string(), " +".to_string()];
    let scanner = match ScannerBuilder::new().add_patterns(pats).build() {
        Ok(s) => s,
        Err(_) => return,
    };
    for target in [65_530usize + r.below(12), 65_536, 131_072 + r.below(5), 20_000] {
        // pieces: (text, token type); the piece kinds alternate so that pieces are whole tokens
        let mut input = String::new();
        let mut exp: Vec<(usize, usize, usize)> = Vec::new();
        let mut kind = r.below(3);
        // sometimes one very long word first
        if r.chance(50) {
            let n = target - r.below(40).min(target);
            input.push_str(&"a".repeat(n));
            exp.push((0, 0, n));
            kind = 1 + r.below(2);
        }
        while input.len() < target + 12 {
            let n = 1 + r.below(6);
            let piece: String = match kind {
                0 => (0..n).map(|_| (b'a' + r.below(26) as u8) as char).collect(),
                1 => (0..n).map(|_| (b'0' + r.below(10) as u8) as char).collect(),
                _ => " ".repeat(1 + r.below(2)),
            };
            exp.push((kind, input.len(), input.len() + piece.len()));
            input.push_str(&piece);
            let nk = r.below(2);
            kind = (kind + 1 + nk) % 3;
        }
        st.inputs += 1;
        let real: Vec<(usize, usize, usize)> = match catch_unwind(AssertUnwindSafe(|| {
            scanner.find_iter(&input).take(input.len() + 2).map(|m| (m.token_type(), m.start(), m.end())).collect::<Vec<_>>()
        })) {
            Ok(v) => v,
            Err(_) => {
                out.push_str("oracle FAIL scanning a long input panicked\nexpect oracle\n");
                continue;
            }
        };
        if real == exp {
            out.push_str("oracle ok\nexpect oracle\n");
        } else {
            let k = real.iter().zip(exp.iter()).position(|(a, b)| a != b).unwrap_or(real.len().min(exp.len()));
            let _ = writeln!(out, "oracle FAIL input of {} characters (words, numbers, blanks): token #{} is {:?}; the longest-match rule prescribes {:?}\nexpect oracle", input.len(), k, real.get(k), exp.get(k));
        }
    }
    st.count("inputs_longer_than_65535", 3);
    // sweep: a token of a kind not seen before (and one seen long before) starting at every
    // position around 2^16 and 2^17
    let mut bad: Option<String> = None;
    let mut swept = 0;
    for base in [65_536usize, 131_072] {
        for d in (base - 6)..=(base + 6) {
            for head in ["", "12 "] {
                let tail = " 12 ab 345 c";
                let n = d - head.len();
                let input = format!("{}{}{}", head, "a".repeat(n), tail);
                let mut exp: Vec<(usize, usize, usize)> = Vec::new();
                if !head.is_empty() {
                    exp.push((1, 0, 2));
                    exp.push((2, 2, 3));
                }
                exp.push((0, head.len(), d));
                for (k, a, b) in [(2, 0, 1), (1, 1, 3), (2, 3, 4), (0, 4, 6), (2, 6, 7), (1, 7, 10), (2, 10, 11), (0, 11, 12)] {
                    exp.push((k, d + a, d + b));
                }
                let real: Vec<(usize, usize, usize)> = match catch_unwind(AssertUnwindSafe(|| {
                    scanner.find_iter(&input).take(40).map(|m| (m.token_type(), m.start(), m.end())).collect::<Vec<_>>()
                })) {
                    Ok(v) => v,
                    Err(_) => vec![(usize::MAX, 0, 0)],
                };
                swept += 1;
                if real != exp && bad.is_none() {
                    let k = real.iter().zip(exp.iter()).position(|(a, b)| a != b).unwrap_or(real.len().min(exp.len()));
                    bad = Some(format!("input {:?} + 'a' x {} + {:?}: token #{} is {:?}; the longest-match rule prescribes {:?}", head, n, tail, k, real.get(k), exp.get(k)));
                }
            }
        }
    }
    st.inputs += swept;
    match bad {
        None => out.push_str("oracle ok\nexpect oracle\n"),
        Some(b) => {
            let _ = writeln!(out, "oracle FAIL {}\nexpect oracle", b);
        }
    }
}

/// C05: a mode with more than 64 patterns, two of them the same expression with different
/// lookaheads at list positions that differ by a multiple of 64.
fn c05_many_patterns(seed: u64, idx: usize, cache: &TableCache, rcache: &RefCache, out: &mut String, st: &mut Stats) {
    let mut r = Rng::derive(seed ^ 0x0c05_6464, idx as u64);
    let n = 66 + r.below(70);
    let first = r.below(3);
    let mut patterns: Vec<PatSpec> = Vec::new();
    let letters = ['c', 'd', 'e', 'x', 'y', 'z', 'q', 'w'];
    let mut used = std::collections::BTreeSet::new();
    for k in 0..n {
        let mut w: String;
        loop {
            w = (0..(2 + r.below(2))).map(|_| *r.pick(&letters)).collect();
            if used.insert(w.clone()) {
                break;
            }
        }
        patterns.push(PatSpec { pattern: w, tid: k, lookahead: None });
    }
    let las = ["c", "cde", "x", "cd", "c[a-z]*"];
    let mut k = first;
    let mut j = 0;
    while k < n {
        patterns[k] = PatSpec { pattern: "ab".into(), tid: k, lookahead: Some((r.chance(85), las[j % las.len()].to_string())) };
        j += 1;
        k += 64;
    }
    patterns.push(PatSpec { pattern: "[a-z]".into(), tid: n, lookahead: None });
    patterns.push(PatSpec { pattern: " ".into(), tid: n + 1, lookahead: None });
    let spec = vec![ModeSpec { name: "MANY".into(), patterns, transitions: vec![] }];
    st.count("modes_with_more_than_64_patterns", 1);
    let extra = vec!["abcde abx abc".to_string(), "abcd ab abcde".to_string(), "abq abcxyz".to_string()];
    case_find_with(seed, idx, "C05", Some((spec, extra)), cache, rcache, out, st);
}

/// C04, C05 (extra cases): lookaheads that match thousands of bytes (the length of the lookahead
/// match is a summand of the extent).
fn c05_long_lookahead(seed: u64, idx: usize, suite: &str, cache: &TableCache, rcache: &RefCache, out: &mut String, st: &mut Stats) {
    let mut r = Rng::derive(seed ^ 0x0c05_1046, idx as u64);
    let (x, y, z) = (*r.pick(&['a', 'x', 'k']), *r.pick(&['b', 'y', 'é']), *r.pick(&['c', ';', 'z']));
    let la = match r.below(3) {
        0 => format!("{}+", y),
        1 => format!("{}+{}", y, z),
        _ => format!("[{}{}]*{}", y, x, z),
    };
    let mk = |p: String, t: usize, l: Option<(bool, String)>| PatSpec { pattern: p, tid: t, lookahead: l };
    let spec = vec![ModeSpec {
        name: "LONG".into(),
        patterns: vec![
            mk(x.to_string(), 1, Some((true, la.clone()))),
            mk(format!("{}{}", x, y), 2, Some((r.chance(80), la.clone()))),
            // (no pattern for the repeated character alone: the run behind the token is skipped, so
            // that the reference scan stays linear in the length of the input)
            mk(format!("{}", z), 4, None),
        ],
        transitions: vec![],
    }];
    let mut inputs = Vec::new();
    for n in [4095usize, 4096, 4097, 4098 + r.below(3000)] {
        let mut t = String::new();
        t.push(x);
        for _ in 0..n {
            t.push(y);
        }
        t.push(z);
        inputs.push(t);
    }
    st.count("lookaheads_matching_more_than_4096_bytes", 1);
    case_find_with(seed, idx, suite, Some((spec, inputs)), cache, rcache, out, st);
}

/// C01: several patterns of a mode share a token type (the reported type is the one of the first
/// listed pattern among the longest matches; DESIGN F2 describes what the crate does when the
/// shared type also occurs before that pattern).
fn c01_shared_token_types(seed: u64, idx: usize, cache: &TableCache, rcache: &RefCache, out: &mut String, st: &mut Stats) {
    let mut r = Rng::derive(seed ^ 0x0c01_5a7e, idx as u64);
    let pc = ProgCfg { max_modes: 1, max_patterns: 4, lookahead: 0, nullable: true, transitions: false, big_tids: false };
    let mut spec = cfggen::gen_program(&mut r, &pc);
    const WORDS: [&str; 8] = ["and", "if", "ab", "a", "&&", "b", "do", "aa"];
    const IDENT: [&str; 4] = ["[a-z]+", "[a-z&]+", "[a-b]+", "[a-z][a-z0-9]*"];
    let w = r.pick(&WORDS).to_string();
    let w2 = r.pick(&WORDS).to_string();
    let id = r.pick(&IDENT).to_string();
    let (t1, t2) = (1 + r.below(3), 5 + r.below(3));
    let mk = |p: &str, t: usize| PatSpec { pattern: p.to_string(), tid: t, lookahead: None };
    let mut pats: Vec<PatSpec> = match r.below(4) {
        // keyword first: the first occurrence of its type is the keyword itself
        0 => vec![mk(&w, t1), mk(&id, t2), mk(&w2, t1)],
        // the shared type occurs again behind the identifier
        1 => vec![mk(&w, t1), mk(&w2, t2), mk(&id, t2), mk("&&", t1)],
        // the later keyword shares the type of an earlier pattern (F2 when it ties with the identifier)
        2 => vec![mk(&w2, t1), mk(&id, t2), mk(&w, t1)],
        _ => vec![mk(&id, t2), mk(&w, t1), mk(&w2, t1), mk("[0-9]+", t2)],
    };
    // the random patterns of the generated program around them, some sharing one of the two types
    for (k, p) in spec[0].patterns.drain(..).enumerate() {
        let tid = if r.chance(50) { *r.pick(&[t1, t2]) } else { 10 + k };
        let at = r.below(pats.len() + 1);
        pats.insert(at, PatSpec { pattern: p.pattern, tid, lookahead: None });
    }
    spec[0].patterns = pats;
    let inputs = vec![
        format!("{} {} {}{} x", w, w2, w, w2),
        format!("a {} b && {}y 12 {}", w, w2, w),
        format!("{}{}", w2, w),
    ];
    st.count("modes_with_a_shared_token_type", 1);
    case_find_with(seed, idx, "C01", Some((spec, inputs)), cache, rcache, out, st);
}

/// C01: a negated POSIX item as the only item of a negated bracket (two negations cancel), next to
/// the singly negated forms.
fn c01_double_negation(seed: u64, idx: usize, cache: &TableCache, rcache: &RefCache, out: &mut String, st: &mut Stats) {
    let mut r = Rng::derive(seed ^ 0x0c01_d0e6, idx as u64);
    const KINDS: [&str; 6] = ["alpha", "digit", "upper", "lower", "space", "punct"];
    let k = *r.pick(&KINDS);
    let k2 = *r.pick(&KINDS);
    let mut pats = vec![
        format!("[^[:^{}:]]+", k),
        format!("[^[:^{}:]]+", k2),
        format!("[[:^{}:]x]", k),
        "[^\\s]".to_string(),
    ];
    r.shuffle(&mut pats);
    let spec = vec![ModeSpec {
        name: "INITIAL".to_string(),
        patterns: pats.into_iter().enumerate().map(|(i, p)| PatSpec { pattern: p, tid: i, lookahead: None }).collect(),
        transitions: vec![],
    }];
    let inputs = vec!["abc 123 XY;z".to_string(), "ÄÖ x Y 9,".to_string(), "a1B2 \t.".to_string()];
    st.count("doubly_negated_posix_items_in_patterns", 1);
    case_find_with(seed, idx, "C01", Some((spec, inputs)), cache, rcache, out, st);
}

/// C01: bracketed classes with an item that lies inside another item of the same class
/// (`[a-z0-9_e]`, `[ -~a-f]`, `[a-zc-e]`), and inputs with characters of the enclosing range beyond
/// the enclosed item.
fn c01_nested_class_items(seed: u64, idx: usize, cache: &TableCache, rcache: &RefCache, out: &mut String, st: &mut Stats) {
    let mut r = Rng::derive(seed ^ 0x0c01_9e57, idx as u64);
    const OUTER: [(char, char); 6] = [('a', 'z'), ('A', 'Z'), ('0', '9'), (' ', '~'), ('α', 'ω'), ('a', 'm')];
    let mut pats = Vec::new();
    let mut text = String::new();
    let n = 2 + r.below(3);
    for k in 0..n {
        let (lo, hi) = *r.pick(&OUTER);
        let span = hi as u32 - lo as u32;
        // enclosed item: starts after `lo`, ends before `hi`
        let a = lo as u32 + 1 + r.below((span - 1) as usize) as u32;
        let b = if r.chance(50) { a } else { a + r.below((hi as u32 - a) as usize) as u32 };
        let item = |x: u32| -> String {
            let c = char::from_u32(x).unwrap();
            if c.is_alphanumeric() { c.to_string() } else { format!("\\x{{{:x}}}", x) }
        };
        let outer = format!("{}-{}", item(lo as u32), item(hi as u32));
        let inner = if a == b { item(a) } else { format!("{}-{}", item(a), item(b)) };
        let extra = *r.pick(&["", "_", "0-9", "\\."]);
        let neg = if r.chance(15) { "^" } else { "" };
        let body = match r.below(4) {
            0 => format!("{}{}{}", outer, extra, inner),
            1 => format!("{}{}{}", inner, extra, outer),
            2 => format!("{}{}{}{}", outer, inner, extra, item(hi as u32)),
            _ => format!("{}{}{}", extra, outer, inner),
        };
        let rep = *r.pick(&["+", "+", "*x", "{2,3}", ""]);
        pats.push(PatSpec { pattern: format!("[{}{}]{}", neg, body, rep), tid: k, lookahead: None });
        // characters of the enclosing range above, inside and below the enclosed item
        for x in [b + 1, hi as u32, a, b, lo as u32, (b + hi as u32) / 2] {
            if let Some(c) = char::from_u32(x.min(hi as u32)) {
                text.push(c);
            }
        }
        text.push(*r.pick(&[' ', '#', 'x', '\n']));
    }
    let spec = vec![ModeSpec { name: "INITIAL".to_string(), patterns: pats, transitions: vec![] }];
    let cs: Vec<char> = text.chars().collect();
    let mut shuffled = cs.clone();
    r.shuffle(&mut shuffled);
    let inputs = vec![text.clone(), shuffled.iter().collect::<String>(), cs.iter().rev().collect::<String>()];
    st.count("classes_with_an_item_inside_another_item", n);
    case_find_with(seed, idx, "C01", Some((spec, inputs)), cache, rcache, out, st);
}

fn case_find(seed: u64, idx: usize, suite: &str, cache: &TableCache, rcache: &RefCache, out: &mut String, st: &mut Stats) {
    case_find_with(seed, idx, suite, None, cache, rcache, out, st);
}

fn case_find_with(seed: u64, idx: usize, suite: &str, preset: Option<(Vec<ModeSpec>, Vec<String>)>, cache: &TableCache, rcache: &RefCache, out: &mut String, st: &mut Stats) {
    if preset.is_none() && suite == "C01" && idx >= EXTRA_BASE {
        return match idx % 3 {
            0 => c01_shared_token_types(seed, idx, cache, rcache, out, st),
            1 => c01_nested_class_items(seed, idx, cache, rcache, out, st),
            _ => c01_double_negation(seed, idx, cache, rcache, out, st),
        };
    }
    if preset.is_none() && (suite == "C04" || suite == "C05") && idx >= EXTRA_BASE {
        return c05_long_lookahead(seed, idx, suite, cache, rcache, out, st);
    }
    if preset.is_none() && suite == "C01" && idx % 40 == 7 {
        return c01_many_classes(seed, idx, out, st);
    }
    if preset.is_none() && suite == "C01" && idx % 60 == 11 {
        return c01_long_input(seed, idx, out, st);
    }
    if preset.is_none() && suite == "C05" && idx % 25 == 3 {
        return c05_many_patterns(seed, idx, cache, rcache, out, st);
    }
    let preset_given = preset.is_some();
    let (preset_spec, preset_inputs) = match preset {
        Some((a, b)) => (Some(a), b),
        None => (None, vec![]),
    };
    let mut r = Rng::derive(seed, idx as u64);
    let pc = match suite {
        "C01" => ProgCfg { max_modes: 1, max_patterns: 6, lookahead: 0, nullable: true, transitions: false, big_tids: true },
        "C04" | "C05" => ProgCfg { max_modes: 1, max_patterns: 5, lookahead: 55, nullable: true, transitions: false, big_tids: false },
        _ => ProgCfg { max_modes: 2, max_patterns: 5, lookahead: 30, nullable: true, transitions: true, big_tids: true },
    };
    let mut spec = match preset_spec {
        Some(s) => s,
        None => cfggen::gen_program(&mut r, &pc),
    };
    // C01: a third of the programs goes through `add_patterns` (token type = pattern index)
    let preset_shares_tids = preset_given && spec.iter().any(|m| {
        let mut t: Vec<usize> = m.patterns.iter().map(|p| p.tid).collect();
        t.sort();
        t.windows(2).any(|w| w[0] == w[1])
    });
    let via_add_patterns = suite == "C01" && r.chance(33) && !preset_shares_tids;
    if via_add_patterns && r.chance(25) {
        let at = r.below(spec[0].patterns.len() + 1);
        spec[0].patterns.insert(at, PatSpec { pattern: String::new(), tid: 0, lookahead: None });
    }
    // `add_patterns`: the same pattern text twice (the later one can never win, but it keeps its index)
    let mut rdup = Rng::derive(seed ^ 0x0c01_d0b1, idx as u64);
    if via_add_patterns && rdup.chance(30) && !spec[0].patterns.is_empty() {
        let from = rdup.below(spec[0].patterns.len());
        let at = rdup.below(spec[0].patterns.len() + 1);
        let copy = spec[0].patterns[from].clone();
        spec[0].patterns.insert(at, copy);
        st.count("add_patterns_lists_with_a_repeated_pattern", 1);
    }
    if via_add_patterns {
        for (i, p) in spec[0].patterns.iter_mut().enumerate() {
            p.tid = i;
        }
        spec[0].name = "INITIAL".to_string();
    }
    // C04, C05: the same pattern text twice in a mode (other token type), with another lookahead:
    // the second one is a pattern of its own
    let mut rtw = Rng::derive(seed ^ 0x0c04_7e87, idx as u64);
    if (suite == "C04" || suite == "C05") && !preset_given && rtw.chance(15) {
        let k = rtw.below(spec[0].patterns.len());
        let mut twin = spec[0].patterns[k].clone();
        twin.tid = spec[0].patterns.iter().map(|p| p.tid).max().unwrap_or(0) + 1;
        twin.lookahead = match &spec[0].patterns[k].lookahead {
            Some((pos, la)) => Some((!*pos, la.clone())),
            None => Some((rtw.chance(50), rtw.pick(&["a", "b", "[a-c]", "\\("]).to_string())),
        };
        if spec[0].patterns[k].lookahead.is_none() && rtw.chance(50) {
            // the first one gets the positive condition, the twin the negative one
            let text = twin.lookahead.as_ref().unwrap().1.clone();
            spec[0].patterns[k].lookahead = Some((true, text.clone()));
            twin.lookahead = Some((false, text));
        }
        let at = k + 1 + rtw.below(spec[0].patterns.len() - k);
        spec[0].patterns.insert(at, twin);
        st.count("same_pattern_text_twice_with_other_lookahead", 1);
    }
    // C04, C05: two token types of a mode that agree in their low 32 bits, exactly one of the two
    // patterns carrying a lookahead
    let mut rco = Rng::derive(seed ^ 0x0c04_3232, idx as u64);
    if (suite == "C04" || suite == "C05") && !preset_given && spec[0].patterns.len() >= 2 && rco.chance(6) {
        let i = rco.below(spec[0].patterns.len());
        let j = (i + 1 + rco.below(spec[0].patterns.len() - 1)) % spec[0].patterns.len();
        spec[0].patterns[j].tid = spec[0].patterns[i].tid + (1usize << 32);
        if spec[0].patterns[i].lookahead.is_some() == spec[0].patterns[j].lookahead.is_some() {
            spec[0].patterns[j].lookahead = match spec[0].patterns[i].lookahead {
                Some(_) => None,
                None => Some((rco.chance(60), rco.pick(&["a", "b", ";", "[a-c]"]).to_string())),
            };
        }
        st.count("token_types_congruent_mod_2^32_one_with_lookahead", 1);
    }
    let modes = cfggen::to_modes(&spec);
    st.cases += 1;
    // C01: the reported token type and the tie-break are those of the configuration the scanner
    // was built from: a third of the scanners is built through the cache after a sibling
    // configuration with the same pattern texts and other token types (or another order)
    let mut r2 = Rng::derive(seed ^ 0x0c01_51b1, idx as u64);
    let sibling = suite == "C01" && r2.chance(35);
    // C04, C05: half of the scanners are built from modes that went through a JSON round trip
    let via_json = (suite == "C04" || suite == "C05") && r2.chance(50);
    let modes = if via_json {
        match serde_json::to_string(&modes).ok().and_then(|t| serde_json::from_str::<Vec<scnr::ScannerMode>>(&t).ok()) {
            Some(m) => {
                st.count("built_from_modes_after_a_json_round_trip", 1);
                m
            }
            None => modes,
        }
    } else {
        modes
    };
    let built = catch_unwind(AssertUnwindSafe(|| {
        if sibling {
            let mut sib = spec.clone();
            for m in sib.iter_mut() {
                match r2.below(3) {
                    0 => {
                        for (i, p) in m.patterns.iter_mut().enumerate() {
                            p.tid = i;
                        }
                    }
                    1 => {
                        let mut tids: Vec<usize> = m.patterns.iter().map(|p| p.tid).collect();
                        tids.rotate_left(1);
                        for (p, t) in m.patterns.iter_mut().zip(tids) {
                            p.tid = t;
                        }
                    }
                    _ => m.patterns.reverse(),
                }
            }
            let _ = ScannerBuilder::new().add_scanner_modes(&cfggen::to_modes(&sib)).build();
        }
        if via_add_patterns {
            ScannerBuilder::new().add_patterns(spec[0].patterns.iter().map(|p| p.pattern.clone())).build()
        } else if sibling {
            ScannerBuilder::new().add_scanner_modes(&modes).build()
        } else {
            ScannerBuilder::new().add_scanner_modes(&modes).build_uncached()
        }
    }));
    if sibling {
        st.count("built_through_cache_after_sibling", 1);
    }
    let scanner = match built {
        Err(_) => {
            st.build_panic += 1;
            let _ = writeln!(out, "case {}", idx);
            let _ = writeln!(out, "expect buildpanic");
            let _ = writeln!(out, "# {}", describe(&spec).replace('\n', "\\n"));
            return;
        }
        Ok(Err(_)) => {
            st.build_err += 1;
            return;
        }
        Ok(Ok(s)) => s,
    };
    let dump = scanner.verif_dump();
    let tables = cache.tables(&scanner, &dump);
    let mut head = String::new();
    let _ = writeln!(head, "case {}", idx);
    let _ = writeln!(head, "expect case {}", idx);
    let _ = writeln!(head, "# {}{}", if via_add_patterns { "add_patterns " } else { "" }, describe(&spec).replace('\n', "\\n"));
    proto::write_scanner(&mut head, &dump, &tables);
    head.push_str("wf\nexpect wf 1\n");
    // the configured polarity of every lookahead (the first pattern of a token type counts)
    for (m, mode) in spec.iter().enumerate() {
        let mut seen: Vec<usize> = Vec::new();
        for p in &mode.patterns {
            if let Some((pos, _)) = &p.lookahead {
                if !seen.contains(&p.tid) {
                    let _ = writeln!(head, "lapol {} {} {}", m, p.tid, *pos as u8);
                }
            }
            seen.push(p.tid);
        }
    }
    if suite == "C01" {
        // the pattern-level reference and the hypothesis LangEquiv (C02's verified check)
        if !write_patterns(&mut head, &spec, rcache) {
            st.count("reference_unavailable", 1);
            return;
        }
        for m in 0..dump.modes.len() {
            let _ = writeln!(head, "equiv {}", m);
            head.push_str("expect equiv ok\n");
        }
        if via_add_patterns {
            st.count("built_via_add_patterns", 1);
        }
    }
    if (suite == "C04" || suite == "C05") && idx % 4 == 0 {
        // the lookahead automata (and the mode automaton) of the dump are those of the configured
        // expressions: C02's verified check on the same dump (hypothesis of the pattern-level reading
        // of the trailing-context verdict)
        let mut pl = String::new();
        if write_patterns(&mut pl, &spec, rcache) {
            head.push_str(&pl);
            for (m, mode) in dump.modes.iter().enumerate() {
                let _ = writeln!(head, "equiv {}", m);
                head.push_str("expect equiv ok\n");
                for (tid, _, _) in &mode.dfa.lookaheads {
                    let _ = writeln!(head, "equivla {} {}", m, tid);
                    head.push_str("expect equiv ok\n");
                    st.count("lookahead_automata_checked_against_patterns", 1);
                }
            }
        } else {
            st.count("reference_unavailable", 1);
        }
    }
    out.push_str(&head);
    out.push_str("finder model\n");
    let n_inputs = 6 + preset_inputs.len();
    for i_in in 0..n_inputs {
        let input = if i_in >= 6 { preset_inputs[i_in - 6].clone() } else { cfggen::gen_input(&mut r, &dump, &tables, 6) };
        let mut rx = Rng::derive(seed ^ 0xe0e0_71c5, (idx * 13 + input.len()) as u64);
        let input = if rx.chance(25) { cfggen::sprinkle_exotic(&mut rx, &input) } else { input };
        let mut rn = Rng::derive(seed ^ 0x0000_71c5, (idx * 13 + input.len()) as u64);
        let input = if rn.chance(8) { cfggen::inject_nul(&mut rn, &input) } else { input };
        st.inputs += 1;
        let _ = writeln!(out, "input{}", proto::cps(&input));
        for m in 0..dump.modes.len() {
            // (the declarative verdict enumerates all splits at all positions: not for long inputs,
            // where the token stream below is compared with the model instead)
            if input.len() > 1500 {
                break;
            }
            let _ = writeln!(out, "findall {}", m);
            let real = real::findall(&scanner, m, &input);
            let found = real.matches(':').count() / 2;
            st.count("find_positions", real.split(' ').count() - 1);
            st.count("find_some", found);
            let _ = writeln!(out, "expect {}", real);
        }
        // token stream
        out.push_str("new 0\n");
        let mut h = History::new(&scanner, &input, 0, dump.modes.len());
        let p = Profile { run_out: 1, ..Default::default() };
        h.step(&mut r, &p, out);
        // fused: one more next
        let p = Profile { next: 1, ..Default::default() };
        h.step(&mut r, &p, out);
        // C01: a short history (tokens, previews, resets to consumed offsets) on a second iterator
        if suite == "C01" && idx % 2 == 0 {
            out.push_str("new 0\n");
            let mut h2 = History::new(&scanner, &input, 0, dump.modes.len());
            let p = Profile { next: 45, peek: 25, setoff_back: 25, off: 5, ..Default::default() };
            for _ in 0..r.range(6, 18) {
                if h2.dead {
                    break;
                }
                h2.step(&mut r, &p, out);
            }
        }
        // the same iterator once more after it reached the end (an over-long peek, then from 0)
        if !h.dead && idx % 2 == 1 {
            let p = Profile { peek: 1, ..Default::default() };
            h.step(&mut r, &p, out);
            h.set_offset_to(0, out);
            let p = Profile { run_out: 1, ..Default::default() };
            h.step(&mut r, &p, out);
        }
        if st.samples.len() < 3 {
            st.samples.push(format!("{} input {:?}", describe(&spec), input));
        }
    }
}

/// iterator suite in oracle-finder mode: the Lean iterator runs on the table of real find_from
/// results; histories of operations according to the profile of the property.
fn case_iter(seed: u64, idx: usize, suite: &str, cache: &TableCache, out: &mut String, st: &mut Stats) {
    let mut r = Rng::derive(seed, idx as u64);
    let pc = ProgCfg { max_modes: 4, max_patterns: 4, lookahead: if suite == "C04" || suite == "C05" { 55 } else { 15 }, nullable: true, transitions: true, big_tids: false };
    let mut spec = cfggen::gen_program(&mut r, &pc);
    if suite == "C09" {
        // tokens that span line breaks, in some modes
        const MULTILINE: [&str; 6] = ["[^b]+", "(?:\\n|a)+", "\\n+", "\\s+", "a[^c]*c", "(?:.|\\n){2,3}"];
        for m in spec.iter_mut() {
            if r.chance(60) {
                let tid = m.patterns.iter().map(|p| p.tid).max().unwrap_or(0) + 1;
                let pos = r.below(m.patterns.len() + 1);
                m.patterns.insert(pos, cfggen::PatSpec { pattern: r.pick(&MULTILINE).to_string(), tid, lookahead: None });
            }
        }
    }
    // C06: mode names with quotes, backslashes, control and non-ASCII characters
    let mut r10 = Rng::derive(seed ^ 0x0c06_a3e5, idx as u64);
    if suite == "C06" && r10.chance(25) {
        let m = r10.below(spec.len());
        spec[m].name = format!("{}{}", r10.pick(&["IN\"STRING\"", "Zeichenkette_ä", "back\\slash", "tab\there", "", "名前", "a b"]), m);
    }
    // C07: a lookahead or pattern that cannot be compiled (building must return an error), a mode
    // without patterns
    if suite == "C07" && r10.chance(8) {
        let m = r10.below(spec.len());
        let k = r10.below(spec[m].patterns.len());
        let bad = r10.pick(&["c*?", "(c", "\\b", "[", "(?i)a"]).to_string();
        if r10.chance(60) {
            spec[m].patterns[k].lookahead = Some((r10.chance(50), bad));
        } else {
            spec[m].patterns[k].pattern = bad;
        }
        st.count("configurations_with_an_uncompilable_expression", 1);
    }
    if (suite == "C07" || suite == "C06") && r10.chance(6) {
        let nm = format!("EMPTY{}", spec.len());
        spec.push(ModeSpec { name: nm, patterns: vec![], transitions: vec![] });
        st.count("modes_without_patterns", 1);
    }
    // C06, C07: two modes with the same name (modes are addressed by index)
    let mut r7 = Rng::derive(seed ^ 0x0c07_dd07, idx as u64);
    if (suite == "C06" || suite == "C07") && spec.len() >= 2 && r7.chance(20) {
        let a = r7.below(spec.len());
        let b = (a + 1 + r7.below(spec.len() - 1)) % spec.len();
        spec[b].name = spec[a].name.clone();
        st.count("two_modes_with_one_name", 1);
    }
    // C06, C11: large token types (64 and above) with transitions on them
    let mut r5 = Rng::derive(seed ^ 0x0c11_6464, idx as u64);
    if (suite == "C06" || suite == "C11") && r5.chance(30) {
        let off = *r5.pick(&[64usize, 63, 1000, 4096, 70000]);
        for m in spec.iter_mut() {
            for p in m.patterns.iter_mut() {
                p.tid += off;
            }
            for t in m.transitions.iter_mut() {
                t.0 += off;
            }
        }
        st.count("token_types_shifted_above_63", 1);
    }
    // C06: modes with the same pattern list and different transitions
    let mut r4 = Rng::derive(seed ^ 0x0c06_7117, idx as u64);
    if suite == "C06" && spec.len() >= 2 && r4.chance(30) {
        let a = r4.below(spec.len());
        let b = (a + 1 + r4.below(spec.len() - 1)) % spec.len();
        spec[b].patterns = spec[a].patterns.clone();
        let n = spec.len();
        let mut tr: Vec<(usize, usize)> = Vec::new();
        let mut tids: Vec<usize> = spec[b].patterns.iter().map(|p| p.tid).collect();
        tids.sort();
        tids.dedup();
        for t in tids {
            if r4.chance(60) {
                tr.push((t, r4.below(n)));
            }
        }
        if tr == spec[a].transitions {
            tr.clear();
        }
        spec[b].transitions = tr;
        st.count("twin_modes_same_patterns_other_transitions", 1);
    }
    // C06, C11: transition tables as the deserializer accepts them (unsorted, duplicate token types):
    // the scanner is then built from modes read through serde
    let mut r9 = Rng::derive(seed ^ 0x0c11_5e7d, idx as u64);
    let via_serde = (suite == "C06" || suite == "C11") && r9.chance(20);
    if via_serde {
        let nm = spec.len();
        for m in spec.iter_mut() {
            if m.transitions.len() >= 2 && r9.chance(70) {
                r9.shuffle(&mut m.transitions);
            }
            if !m.transitions.is_empty() && r9.chance(30) {
                let t = m.transitions[r9.below(m.transitions.len())];
                m.transitions.push((t.0, r9.below(nm)));
            }
        }
        st.count("transition_tables_through_serde_unsorted_or_duplicate", 1);
    }
    let modes = if via_serde {
        match cfggen::to_modes_json(&spec) {
            Some(m) => m,
            None => return,
        }
    } else {
        cfggen::to_modes(&spec)
    };
    st.cases += 1;
    // C06: half of the scanners come from the cached `build`, after a sibling configuration (same
    // names and patterns, other transitions) went through the cache first: the transitions that
    // count are those of the configuration the scanner was built from
    let mut r2 = Rng::derive(seed ^ 0x5151_c06c, idx as u64);
    let cached = suite == "C06" && r2.chance(50) && !via_serde;
    let built = catch_unwind(AssertUnwindSafe(|| {
        if cached {
            let mut sib = spec.clone();
            let n = sib.len();
            for m in sib.iter_mut() {
                match r2.below(3) {
                    0 => m.transitions.clear(),
                    1 => {
                        for t in m.transitions.iter_mut() {
                            t.1 = r2.below(n);
                        }
                    }
                    _ => {
                        let tids: Vec<usize> = m.patterns.iter().map(|p| p.tid).collect();
                        let mut tr: Vec<(usize, usize)> = Vec::new();
                        for t in tids {
                            if r2.chance(50) && !tr.iter().any(|x| x.0 == t) {
                                tr.push((t, r2.below(n)));
                            }
                        }
                        tr.sort();
                        m.transitions = tr;
                    }
                }
            }
            let _ = ScannerBuilder::new().add_scanner_modes(&cfggen::to_modes(&sib)).build();
            ScannerBuilder::new().add_scanner_modes(&modes).build()
        } else {
            // the modes reach the builder in several calls (`add_scanner_mode`, `add_scanner_modes`
            // on a builder that already holds modes): mode k is the k-th mode added
            let split = r2.below(modes.len() + 1);
            match r2.below(4) {
                0 => ScannerBuilder::new().add_scanner_modes(&modes[..split]).add_scanner_modes(&modes[split..]).build_uncached(),
                1 => {
                    let mut b = ScannerBuilder::new();
                    for m in modes.iter() {
                        b = b.add_scanner_mode(m.clone());
                    }
                    b.build_uncached()
                }
                2 if !modes.is_empty() => ScannerBuilder::new().add_scanner_mode(modes[0].clone()).add_scanner_modes(&modes[1..]).build_uncached(),
                _ => ScannerBuilder::new().add_scanner_modes(&modes).build_uncached(),
            }
        }
    }));
    if cached {
        st.count("built_through_cache_after_sibling", 1);
    }
    let scanner = match built {
        Err(_) => {
            st.build_panic += 1;
            let _ = writeln!(out, "case {}", idx);
            let _ = writeln!(out, "expect buildpanic");
            let _ = writeln!(out, "# {}", describe(&spec).replace('\n', "\\n"));
            return;
        }
        Ok(Err(_)) => {
            st.build_err += 1;
            return;
        }
        Ok(Ok(s)) => s,
    };
    let dump = scanner.verif_dump();
    if dump.modes.len() != spec.len() {
        let _ = writeln!(out, "case {}\nexpect case {}\n# {}", idx, idx, describe(&spec).replace('\n', "\\n"));
        let _ = writeln!(out, "oracle FAIL the scanner has {} modes, the configuration it was built from has {}\nexpect oracle", dump.modes.len(), spec.len());
        return;
    }
    let tables = cache.tables(&scanner, &dump);
    let desc = describe(&spec).replace('\n', "\\n");
    let _ = writeln!(out, "case {}", idx);
    let _ = writeln!(out, "expect case {}", idx);
    let _ = writeln!(out, "# {}", desc);
    // configuration only (modes, names, transitions); the automata are not needed for the table finder
    out.push_str("scanner\n");
    // the configured transitions and names (not the compiled ones): the property speaks about the
    // configuration
    for (m, mode) in spec.iter().enumerate() {
        let _ = write!(out, "mode {}", m);
        for (t, to) in &mode.transitions {
            let _ = write!(out, " {} {}", t, to);
        }
        out.push('\n');
        let _ = writeln!(out, "name {}{}", m, proto::cps(&mode.name));
    }
    out.push_str("finder table\n");
    let profile = profile_for(suite);
    for _ in 0..3 {
        let mut input = cfggen::gen_input(&mut r, &dump, &tables, 8);
        if suite == "C09" && r.chance(60) {
            // more line breaks
            let cs: Vec<char> = input.chars().collect();
            let mut t = String::new();
            for c in cs {
                t.push(c);
                if r.chance(20) {
                    t.push('\n');
                }
            }
            input = t;
        }
        if suite == "C09" {
            // runs of line breaks (tokens with several interior line breaks)
            let mut r6 = Rng::derive(seed ^ 0x0c09_9009, (idx * 7 + input.len()) as u64);
            if r6.chance(40) {
                let cs: Vec<char> = input.chars().collect();
                let at = r6.below(cs.len() + 1);
                let run: String = "\n".repeat(2 + r6.below(3));
                input = cs[..at].iter().collect::<String>() + &run + &cs[at..].iter().collect::<String>();
            }
        }
        let mut rx = Rng::derive(seed ^ 0xe0e0_17e2, (idx * 11 + input.len()) as u64);
        if rx.chance(25) {
            input = cfggen::sprinkle_exotic(&mut rx, &input);
        }
        let mut rn = Rng::derive(seed ^ 0x0000_17e2, (idx * 11 + input.len()) as u64);
        if rn.chance(8) {
            input = cfggen::inject_nul(&mut rn, &input);
            st.count("inputs_with_nul_characters", 1);
        }
        // C09: now and then an input of 35 to 80 lines
        let many_lines = suite == "C09" && rx.chance(12);
        if many_lines {
            let lines = 35 + rx.below(46);
            let mut t = String::new();
            for _ in 0..lines {
                t.push_str(&cfggen::gen_input(&mut rx, &dump, &tables, 2).replace('\n', " "));
                t.push('\n');
            }
            input = t;
            st.count("inputs_of_35_and_more_lines", 1);
        }
        st.inputs += 1;
        let _ = writeln!(out, "input{}", proto::cps(&input));
        for m in 0..dump.modes.len() {
            let tbl = match catch_unwind(AssertUnwindSafe(|| scanner.verif_find_table(m, &input))) {
                Ok(t) => t,
                Err(_) => {
                    let _ = writeln!(out, "curmode 0");
                    let _ = writeln!(out, "expect findpanic");
                    return;
                }
            };
            for (p, mm) in tbl {
                if let Some(mm) = mm {
                    let _ = writeln!(out, "tbl {} {} {} {}", m, p, mm.token_type(), mm.end() - mm.start());
                }
            }
        }
        // C06: now and then the input is repeated until it has several hundred characters and is
        // scanned to the end (dozens to hundreds of mode switches within one iterator)
        let mut rms = Rng::derive(seed ^ 0x0c06_3232, (idx * 3 + input.len()) as u64);
        if suite == "C06" && rms.chance(8) && !input.is_empty() {
            let long: String = input.repeat((600 / input.len()).clamp(2, 150));
            let _ = writeln!(out, "input{}", proto::cps(&long));
            let mut ok = true;
            for m in 0..dump.modes.len() {
                match catch_unwind(AssertUnwindSafe(|| scanner.verif_find_table(m, &long))) {
                    Ok(tbl) => {
                        for (p, mm) in tbl {
                            if let Some(mm) = mm {
                                let _ = writeln!(out, "tbl {} {} {} {}", m, p, mm.token_type(), mm.end() - mm.start());
                            }
                        }
                    }
                    Err(_) => ok = false,
                }
            }
            if ok {
                out.push_str("new 3\n");
                let mut hl = History::new(&scanner, &long, 3, dump.modes.len());
                let mut switches = 0usize;
                let mut guard = 0usize;
                loop {
                    let before = out.len();
                    hl.step(&mut rms, &Profile { next: 1, ..Default::default() }, out);
                    let done = out[before..].contains("expect none") || out[before..].contains("expect panic");
                    hl.step(&mut rms, &Profile { curmode: 1, ..Default::default() }, out);
                    switches += 1;
                    guard += 1;
                    if done || hl.dead || guard > long.len() + 2 {
                        break;
                    }
                }
                st.count("long_inputs_scanned_to_the_end_with_the_mode_after_every_token", 1);
                st.count("tokens_on_long_inputs", switches);
            }
            // back to the ordinary input of this round
            let _ = writeln!(out, "input{}", proto::cps(&input));
            for m in 0..dump.modes.len() {
                if let Ok(tbl) = catch_unwind(AssertUnwindSafe(|| scanner.verif_find_table(m, &input))) {
                    for (p, mm) in tbl {
                        if let Some(mm) = mm {
                            let _ = writeln!(out, "tbl {} {} {} {}", m, p, mm.token_type(), mm.end() - mm.start());
                        }
                    }
                }
            }
        }
        out.push_str("new 0\n");
        let mut h = History::new(&scanner, &input, 0, dump.modes.len());
        let n_ops = if many_lines { r.range(150, 300) } else if suite == "C09" { r.range(8, 40) } else { r.range(4, 25) };
        for _ in 0..n_ops {
            if h.dead {
                break;
            }
            let name = h.step(&mut r, &profile, out);
            *st.ops.entry(name.to_string()).or_default() += 1;
        }
        if suite == "C09" || suite == "C07" {
            // the real `with_positions()` adapter on a fresh iterator of the same scanner
            use scnr::MatchExtIterator;
            out.push_str("new 1\n");
            let toks = catch_unwind(AssertUnwindSafe(|| {
                scanner.find_iter(&input).with_positions().take(input.len() + 2).collect::<Vec<scnr::MatchExt>>()
            }));
            match toks {
                Err(_) => out.push_str("nextp 1\nexpect panic\n"),
                Ok(v) => {
                    // the accessors of a delivered match agree with each other
                    let mut acc_bad: Option<String> = None;
                    for me in &v {
                        let sp = me.span();
                        let ok = sp.start == me.start() && sp.end == me.end() && me.range() == (me.start()..me.end())
                            && sp.range() == me.range() && me.len() == me.end() - me.start() && sp.len() == me.len()
                            && me.is_empty() == (me.len() == 0) && sp.is_empty() == me.is_empty()
                            && me.start_position().line() == me.start_position().line && me.start_position().column() == me.start_position().column
                            && format!("{}", sp) == format!("{}..{}", me.start(), me.end())
                            && scnr::Span::from(me.start()..me.end()) == sp;
                        let m2 = scnr::Match::new(me.token_type(), sp);
                        let ok2 = m2.start() == me.start() && m2.end() == me.end() && m2.span() == sp && m2.range() == me.range()
                            && m2.len() == me.len() && m2.is_empty() == me.is_empty() && m2.token_type() == me.token_type();
                        if !(ok && ok2) && acc_bad.is_none() {
                            acc_bad = Some(format!("{:?}", me));
                        }
                    }
                    match acc_bad {
                        None => out.push_str("oracle ok\nexpect oracle\n"),
                        Some(b) => {
                            let _ = writeln!(out, "oracle FAIL the accessors (span, range, len, is_empty, start/end, positions) of the delivered match {} disagree\nexpect oracle", b.replace('\n', " "));
                        }
                    }
                    for me in &v {
                        let _ = writeln!(out, "nextp 1\nexpect tokp {} {} {} {} {} {} {}", me.token_type(), me.start(), me.end(),
                            me.start_position().line, me.start_position().column, me.end_position().line, me.end_position().column);
                    }
                    out.push_str("nextp 1\nexpect none\n");
                    *st.ops.entry("with_positions_adapter_tokens".to_string()).or_default() += v.len();
                }
            }
        }
        if matches!(suite, "C06" | "C07" | "C09" | "C10") {
            // a history driven through the adapter's own trait impls (set_offset, position, set_mode,
            // current_mode, mode_name of `WithPositions`)
            let mut ra = Rng::derive(seed ^ 0xada9_7e12, (idx * 5 + input.len()) as u64);
            out.push_str("new 2\n");
            let n_ad = 6 + ra.below(14);
            let done = real::adapter_history(&scanner, &input, 2, dump.modes.len(), &mut ra, n_ad, suite == "C09", out);
            *st.ops.entry("operations_through_the_with_positions_adapter".to_string()).or_default() += done;
        }
        if st.samples.len() < 3 {
            st.samples.push(format!("{} input {:?}", desc, input));
        }
    }
}

fn repo_root() -> String {
    std::env::var("SCNR_REPO").unwrap_or_else(|_| "/repo".to_string())
}

/// Loads the repository corpora (tests/data/*.json mode lists, benches/veryl_modes.json).
fn load_corpora() -> Vec<(String, Vec<ModeSpec>)> {
    let mut files: Vec<std::path::PathBuf> = Vec::new();
    if let Ok(rd) = std::fs::read_dir(&format!("{}/scnr/tests/data", repo_root())) {
        for e in rd.flatten() {
            let p = e.path();
            let n = p.file_name().unwrap().to_string_lossy().to_string();
            if n.ends_with(".json") && !n.ends_with("_tokens.json") {
                files.push(p);
            }
        }
    }
    files.push(format!("{}/scnr/benches/veryl_modes.json", repo_root()).into());
    files.sort();
    let mut out = Vec::new();
    for f in files {
        let Ok(text) = std::fs::read_to_string(&f) else { continue };
        let Ok(v) = serde_json::from_str::<serde_json::Value>(&text) else { continue };
        let Some(arr) = v.as_array() else { continue };
        let mut modes = Vec::new();
        for m in arr {
            let name = m["name"].as_str().unwrap_or("M").to_string();
            let mut patterns = Vec::new();
            for p in m["patterns"].as_array().cloned().unwrap_or_default() {
                let lookahead = p.get("lookahead").and_then(|l| {
                    Some((l["is_positive"].as_bool()?, l["pattern"].as_str()?.to_string()))
                });
                patterns.push(PatSpec {
                    pattern: p["pattern"].as_str().unwrap_or("").to_string(),
                    tid: p["token_type"].as_u64().unwrap_or(0) as usize,
                    lookahead,
                });
            }
            let mut transitions = Vec::new();
            for t in m["transitions"].as_array().cloned().unwrap_or_default() {
                transitions.push((t[0].as_u64().unwrap_or(0) as usize, t[1].as_u64().unwrap_or(0) as usize));
            }
            modes.push(ModeSpec { name, patterns, transitions });
        }
        out.push((f.file_name().unwrap().to_string_lossy().to_string(), modes));
    }
    out
}

/// Writes reference tables and the serialised pattern ASTs of a configuration.
/// Returns false if a pattern is outside the reference subset.
fn write_patterns(out: &mut String, spec: &[ModeSpec], rcache: &RefCache) -> bool {
    let mut refs = RefTables::default();
    let mut lines = String::new();
    for (m, mode) in spec.iter().enumerate() {
        for p in &mode.patterns {
            match astser::ser_pattern(&p.pattern, &mut refs, rcache) {
                Some(a) => {
                    let _ = writeln!(lines, "pat {} {}{}", m, p.tid, a);
                }
                None => return false,
            }
            if let Some((_, la)) = &p.lookahead {
                match astser::ser_pattern(la, &mut refs, rcache) {
                    Some(a) => {
                        let _ = writeln!(lines, "lapat {} {}{}", m, p.tid, a);
                    }
                    None => return false,
                }
            }
        }
    }
    refs.write(out);
    out.push_str(&lines);
    true
}

/// C02: the compiled automata (mode and lookaheads) against the pattern languages.
fn equiv_case(idx: usize, spec: &[ModeSpec], cache: &TableCache, rcache: &RefCache, out: &mut String, st: &mut Stats) {
    let modes = cfggen::to_modes(spec);
    st.cases += 1;
    scnr::verif::set_minimizer_log(true);
    let _ = scnr::verif::take_minimizer_log();
    let built = catch_unwind(AssertUnwindSafe(|| {
        ScannerBuilder::new().add_scanner_modes(&modes).build_uncached()
    }));
    let minlog = scnr::verif::take_minimizer_log();
    scnr::verif::set_minimizer_log(false);
    let scanner = match built {
        Err(_) => {
            st.build_panic += 1;
            let _ = writeln!(out, "case {}", idx);
            let _ = writeln!(out, "expect buildpanic");
            let _ = writeln!(out, "# {}", describe(spec).replace('\n', "\\n"));
            return;
        }
        Ok(Err(_)) => {
            st.build_err += 1;
            return;
        }
        Ok(Ok(s)) => s,
    };
    let dump = scanner.verif_dump();
    let tables = cache.tables(&scanner, &dump);
    let mut body = String::new();
    let _ = writeln!(body, "case {}", idx);
    let _ = writeln!(body, "expect case {}", idx);
    let _ = writeln!(body, "# {}", describe(spec).replace('\n', "\\n"));
    proto::write_scanner(&mut body, &dump, &tables);
    if !write_patterns(&mut body, spec, rcache) {
        st.count("reference_unavailable", 1);
        return;
    }
    body.push_str("wf\nexpect wf 1\n");
    let _ = writeln!(body, "classids {}", dump.classes.len());
    body.push_str("expect classids 1\n");
    for (m, mode) in dump.modes.iter().enumerate() {
        let _ = writeln!(body, "equiv {}", m);
        body.push_str("expect equiv ok\n");
        st.count("automata_checked", 1);
        st.count("dfa_states", mode.dfa.states.len());
        for (tid, _, la) in &mode.dfa.lookaheads {
            let _ = writeln!(body, "equivla {} {}", m, tid);
            body.push_str("expect equiv ok\n");
            st.count("automata_checked", 1);
            st.count("dfa_states", la.states.len());
        }
    }
    // track A: the Lean model of the compiler (Thompson construction, closure construction,
    // minimizer) against the automata of this build: before minimization (logged minimizer inputs,
    // in the order the compiler minimizes: every mode followed by its lookaheads) and final
    let mut reg = astser::RegKeys::default();
    let mut clines = String::new();
    let mut ok = true;
    for (m, mode) in spec.iter().enumerate() {
        for p in &mode.patterns {
            match astser::ser_cpattern(&p.pattern, &mut reg) {
                Some(a) => {
                    let _ = writeln!(clines, "cpat {} {}{}", m, p.tid, a);
                }
                None => ok = false,
            }
        }
        for p in &mode.patterns {
            if let Some((_, la)) = &p.lookahead {
                match astser::ser_cpattern(la, &mut reg) {
                    Some(a) => {
                        let _ = writeln!(clines, "clapat {} {}{}", m, p.tid, a);
                    }
                    None => ok = false,
                }
            }
        }
    }
    // E8: the registry model. Leaves are sent with *keys* (positions in the sorted table of all leaf
    // texts); the real registry is sent as the keys of its classes in id order; the model must
    // reproduce it and hands the patterns with the ids it assigned to the compiler model
    let mut registry_lines = String::new();
    {
        let mut texts = std::collections::BTreeSet::new();
        let mut all = true;
        for mode in spec.iter() {
            for p in &mode.patterns {
                all &= astser::collect_leaf_texts(&p.pattern, &mut texts).is_some();
                if let Some((_, la)) = &p.lookahead {
                    all &= astser::collect_leaf_texts(la, &mut texts).is_some();
                }
            }
        }
        // the registered classes as the crate prints them: `#<id> '<text>'`
        let real_texts: Vec<Option<String>> = dump.classes.iter().enumerate().map(|(i, c)| {
            c.strip_prefix(&format!("#{} '", i)).and_then(|r| r.strip_suffix('\'')).map(|r| r.to_string())
        }).collect();
        for t in real_texts.iter().flatten() {
            texts.insert(t.clone());
        }
        let keys: Vec<String> = texts.into_iter().collect();
        if all && real_texts.iter().all(|t| t.is_some()) {
            let mut lines = String::new();
            let mut good = true;
            for (m, mode) in spec.iter().enumerate() {
                for p in &mode.patterns {
                    match astser::ser_kpattern(&p.pattern, &keys) {
                        Some(a) => { let _ = writeln!(lines, "kpat {} {}{}", m, p.tid, a); }
                        None => good = false,
                    }
                    if let Some((pos, la)) = &p.lookahead {
                        match astser::ser_kpattern(la, &keys) {
                            Some(a) => { let _ = writeln!(lines, "kla {} {}{}", m, *pos as u8, a); }
                            None => good = false,
                        }
                    }
                }
            }
            if good {
                let _ = write!(lines, "regreal");
                for t in real_texts.iter().flatten() {
                    let _ = write!(lines, " {}", keys.binary_search(t).unwrap());
                }
                lines.push_str("\nregistry\nexpect registry ok\n");
                registry_lines = lines;
                st.count("class_registries_reproduced_by_the_model", 1);
            }
        }
    }
    if ok && reg.keys.len() == dump.classes.len() {
        body.push_str(&clines);
    }
    // (when the model reproduces the real registry, the patterns with the ids it assigned replace
    // the ones numbered by the harness)
    body.push_str(&registry_lines);
    if ok && reg.keys.len() == dump.classes.len() {
        for (m, mode) in spec.iter().enumerate() {
            for p in &mode.patterns {
                if let Some((pos, _)) = &p.lookahead {
                    let _ = writeln!(body, "lapol {} {} {}", m, p.tid, *pos as u8);
                }
            }
        }
        let mut li = 0;
        for (m, mode) in spec.iter().enumerate() {
            if let Some((pre, _)) = minlog.get(li) {
                body.push_str("dfa x 0\n");
                write_dfa_lines(&mut body, pre);
                let _ = writeln!(body, "compilecheck {}\nexpect compile done", m);
                st.count("compiler_model_checks", 1);
            }
            li += 1;
            for p in &mode.patterns {
                if p.lookahead.is_some() {
                    if let Some((pre, _)) = minlog.get(li) {
                        body.push_str("dfa x 0\n");
                        write_dfa_lines(&mut body, pre);
                        let _ = writeln!(body, "compilecheckla {} {}\nexpect compile done", m, p.tid);
                        st.count("compiler_model_checks", 1);
                    }
                    li += 1;
                }
            }
            // token types unique within the mode (F2): the whole compiled mode at once
            let mut tids: Vec<usize> = mode.patterns.iter().map(|p| p.tid).collect();
            tids.sort();
            tids.dedup();
            if tids.len() == mode.patterns.len() {
                let _ = writeln!(body, "compilefull {}\nexpect compile done", m);
                st.count("compiler_model_checks", 1);
            }
        }
    } else {
        st.count("compiler_model_skipped", 1);
    }
    out.push_str(&body);
    if st.samples.len() < 3 {
        st.samples.push(describe(spec));
    }
}

/// C02 (extra cases): character classes that differ in exactly one attribute, side by side in one
/// scanner (one class registry): negation of a POSIX item, of a Perl or Unicode class, of a
/// bracket; the kind of a set operation; escaped and plain spellings.
fn c02_class_twins(seed: u64, idx: usize, cache: &TableCache, rcache: &RefCache, out: &mut String, st: &mut Stats) {
    let mut r = Rng::derive(seed ^ 0x0c02_7817, idx as u64);
    const POSIX: [&str; 14] = ["alpha", "digit", "alnum", "upper", "lower", "space", "punct", "xdigit", "word", "blank", "cntrl", "graph", "print", "ascii"];
    let twins = |r: &mut Rng| -> Vec<String> {
        match r.below(13) {
            0 | 1 => {
                let k = r.pick(&POSIX).to_string();
                vec![format!("[[:{}:]]", k), format!("[[:^{}:]]", k)]
            }
            2 => {
                let k = r.pick(&POSIX).to_string();
                let k2 = r.pick(&POSIX).to_string();
                vec![format!("[[:{}:]_]", k), format!("[[:^{}:]_]", k), format!("[[:{}:]_]", k2), format!("[^[:{}:]_]", k)]
            }
            3 => {
                let c = *r.pick(&['d', 's', 'w']);
                vec![format!("\\{}", c), format!("\\{}", c.to_ascii_uppercase()), format!("[\\{}_]", c), format!("[\\{}_]", c.to_ascii_uppercase())]
            }
            4 => {
                let c = *r.pick(&['L', 'N', 'Z', 'P', 'C']);
                vec![format!("\\p{}", c), format!("\\P{}", c), format!("[\\p{}a]", c), format!("[\\P{}a]", c)]
            }
            5 => {
                let (a, b) = (*r.pick(&['a', 'b', 'c']), *r.pick(&['x', 'y', 'z']));
                vec![format!("[{}-{}]", a, b), format!("[^{}-{}]", a, b), format!("[{}{}]", a, b), format!("[^{}{}]", a, b)]
            }
            6 => {
                let x = *r.pick(&["a-m", "\\w", "a-z0-9"]);
                let y = *r.pick(&["c-x", "\\d", "e"]);
                vec![format!("[{}&&{}]", x, y), format!("[{}--{}]", x, y), format!("[{}~~{}]", x, y), format!("[{}{}]", x, y)]
            }
            7 => vec!["\\.".to_string(), ".".to_string(), "[.]".to_string(), "[\\.]".to_string()],
            11 | 12 => {
                // the same characters in another order mean another class (`^` first negates, `-`
                // between two members is a range)
                let (a, b) = (*r.pick(&['+', 'a', '|', '#']), *r.pick(&['/', 'c', '~', 'z']));
                vec![format!("[{}^{}]", a, b), format!("[^{}{}]", a, b), format!("[-{}{}]", a, b), format!("[{}-{}]", a, b)]
            }
            9 | 10 => {
                // an escaped backslash in front of a letter that would form another escape with it
                let l = *r.pick(&["e", "d", "n", "x41", "pL", "w", "s", "t", "u{41}", "end", "b", "."]);
                vec![format!("\\\\{}", l), format!("a\\\\{}", l), format!("[\\\\{}]", l.chars().next().unwrap()), format!("\\\\\\\\{}", l.chars().next().unwrap())]
            }
            _ => {
                let c = *r.pick(&['a', 'b', 'ß']);
                vec![c.to_string(), format!("[{}]", c), format!("[^{}]", c), format!("\\x{{{:x}}}", c as u32)]
            }
        }
    };
    let n_modes = 1 + r.below(2);
    let mut spec = Vec::new();
    let mut tid = 0;
    for m in 0..n_modes {
        let mut pats = Vec::new();
        for _ in 0..(1 + r.below(2)) {
            let mut tw = twins(&mut r);
            if r.chance(50) {
                tw.reverse();
            }
            for t in tw {
                let rep = *r.pick(&["", "+", "+", "{2}"]);
                // now and then the twin is the lookahead of the previous pattern
                let la = if r.chance(12) { Some((r.chance(50), t.clone())) } else { None };
                pats.push(PatSpec { pattern: format!("{}{}", t, rep), tid, lookahead: la });
                tid += 1;
            }
        }
        spec.push(ModeSpec { name: format!("M{}", m), patterns: pats, transitions: vec![] });
    }
    st.count("scanners_with_class_twins", 1);
    equiv_case(idx, &spec, cache, rcache, out, st);
}

fn case_c02(seed: u64, idx: usize, cache: &TableCache, rcache: &RefCache, out: &mut String, st: &mut Stats) {
    if idx >= EXTRA_BASE {
        return c02_class_twins(seed, idx, cache, rcache, out, st);
    }
    let mut r = Rng::derive(seed, idx as u64);
    let pc = ProgCfg { max_modes: 2, max_patterns: 5, lookahead: 25, nullable: true, transitions: false, big_tids: true };
    let spec = cfggen::gen_program(&mut r, &pc);
    equiv_case(idx, &spec, cache, rcache, out, st);
}

fn write_dfa_lines(out: &mut String, d: &scnr::verif::DfaDump) {
    out.push_str("prio");
    for t in &d.terminal_ids {
        let _ = write!(out, " {}", t);
    }
    out.push('\n');
    for (s, trs) in d.states.iter().enumerate() {
        let (e, t) = d.end_states[s];
        let _ = write!(out, "st {} {}", e as u8, t);
        for (cc, to) in trs {
            let _ = write!(out, " {} {}", cc, to);
        }
        out.push('\n');
    }
}

/// C03: every (input, output) pair of Minimizer::minimize recorded while building.
fn c03_case(idx: usize, spec: &[ModeSpec], cache: &TableCache, out: &mut String, st: &mut Stats) {
    let modes = cfggen::to_modes(spec);
    st.cases += 1;
    // "for every automaton produced while a scanner is built", whatever was built before in this
    // process: a sibling configuration with the same automaton shapes and a coarser assignment of
    // token types (all patterns of a mode share one) is compiled first, not logged
    if idx % 2 == 0 && spec.iter().any(|m| m.patterns.len() >= 2) {
        let mut sib = spec.to_vec();
        for m in sib.iter_mut() {
            let t = m.patterns.first().map(|p| p.tid).unwrap_or(0);
            for p in m.patterns.iter_mut() {
                p.tid = t;
                p.lookahead = None;
            }
            m.transitions.clear();
        }
        let _ = catch_unwind(AssertUnwindSafe(|| ScannerBuilder::new().add_scanner_modes(&cfggen::to_modes(&sib)).build_uncached()));
        st.count("coarser_sibling_compiled_first", 1);
    }
    scnr::verif::set_minimizer_log(true);
    let _ = scnr::verif::take_minimizer_log();
    let built = catch_unwind(AssertUnwindSafe(|| {
        ScannerBuilder::new().add_scanner_modes(&modes).build_uncached()
    }));
    let log = scnr::verif::take_minimizer_log();
    scnr::verif::set_minimizer_log(false);
    let scanner = match built {
        Err(_) => {
            st.build_panic += 1;
            let _ = writeln!(out, "case {}", idx);
            let _ = writeln!(out, "expect buildpanic");
            let _ = writeln!(out, "# {}", describe(spec).replace('\n', "\\n"));
            return;
        }
        Ok(Err(_)) => {
            st.build_err += 1;
            return;
        }
        Ok(Ok(s)) => s,
    };
    let dump = scanner.verif_dump();
    let tables = cache.tables(&scanner, &dump);
    let _ = writeln!(out, "case {}", idx);
    let _ = writeln!(out, "expect case {}", idx);
    let _ = writeln!(out, "# {}", describe(spec).replace('\n', "\\n"));
    out.push_str("scanner\n");
    for (id, t) in tables.iter().enumerate() {
        let _ = write!(out, "class {}", id);
        for (lo, hi) in t.iter() {
            let _ = write!(out, " {} {}", lo, hi);
        }
        out.push('\n');
    }
    for (a, b) in &log {
        out.push_str("dfa x 0\n");
        write_dfa_lines(out, a);
        out.push_str("dfa x 1\n");
        write_dfa_lines(out, b);
        out.push_str("equivdfa\n");
        out.push_str("expect equivdfa ok\n");
        // track A: the Lean model of the minimizer must produce exactly the logged output
        out.push_str("minimize\n");
        out.push_str("expect minimize done\n");
        st.count("minimizer_pairs", 1);
        st.count("states_before", a.states.len());
        st.count("states_after", b.states.len());
        if b.states.len() < a.states.len() {
            st.count("pairs_with_merges", 1);
        }
    }
    if st.samples.len() < 3 {
        st.samples.push(describe(spec));
    }
}

fn case_c03(seed: u64, idx: usize, cache: &TableCache, out: &mut String, st: &mut Stats) {
    let mut r = Rng::derive(seed, idx as u64);
    let pc = ProgCfg { max_modes: 2, max_patterns: 5, lookahead: 25, nullable: true, transitions: false, big_tids: false };
    let mut spec = cfggen::gen_program(&mut r, &pc);
    // token types that agree in their low bits (8, 16, 32) on states that differ in nothing else
    let mut r2 = Rng::derive(seed ^ 0x0c03_7777, idx as u64);
    if r2.chance(25) {
        let m = r2.below(spec.len());
        let n = spec[m].patterns.len();
        if n >= 2 {
            let i = r2.below(n);
            let j = (i + 1 + r2.below(n - 1)) % n;
            let shift = *r2.pick(&[8usize, 16, 32, 32]);
            spec[m].patterns[j].tid = spec[m].patterns[i].tid + (1usize << shift) * (1 + r2.below(2));
            if r2.chance(70) {
                const KW: [&str; 6] = ["ab", "cd", "if", "do", "a+b", "c+b"];
                let a = r2.below(3) * 2;
                spec[m].patterns[i].pattern = KW[a].to_string();
                spec[m].patterns[j].pattern = KW[a + 1].to_string();
            }
            st.count("token_types_congruent_mod_2^k", 1);
        }
    }
    // several patterns of a mode with one token type; a pattern that matches only the empty string
    if r2.chance(25) {
        let m = r2.below(spec.len());
        let n = spec[m].patterns.len();
        if n >= 2 && r2.chance(70) {
            let t = spec[m].patterns[r2.below(n)].tid;
            let k = r2.below(n);
            spec[m].patterns[k].tid = t;
            if n >= 3 && r2.chance(50) {
                let k2 = r2.below(n);
                spec[m].patterns[k2].tid = t;
            }
            st.count("modes_with_a_shared_token_type", 1);
        }
        if r2.chance(40) {
            let k = r2.below(n);
            spec[m].patterns[k].pattern = r2.pick(&["", "()", "a{0}", "(a{0,0}|)"]).to_string();
            st.count("patterns_matching_only_the_empty_string", 1);
        }
        if r2.chance(40) {
            let k = r2.below(n);
            let c = *r2.pick(&['a', 'b', 'c']);
            spec[m].patterns[k].pattern = format!("{}{}{}{}", r2.pick(&['b', 'c', 'd']), c, c, c);
        }
    }
    // a chain of more than 64 states that differ only in their distance to acceptance
    if r2.chance(6) {
        let m = r2.below(spec.len());
        let k = r2.below(spec[m].patterns.len());
        let n = 66 + r2.below(70);
        spec[m].patterns[k].pattern = if r2.chance(50) { format!("{}{{{}}}", r2.pick(&['a', 'b', 'x']), n) } else { format!("[0-9a-f]{{{}}}", n) };
        st.count("counted_repetitions_above_64", 1);
    }
    // spare terminal ids (shared token type / empty-only pattern) together with a run of one
    // character (needs a second refinement round)
    if r2.chance(12) {
        let l = ['a', 'b', 'c', 'd', 'e'];
        let a = *r2.pick(&l);
        let others: Vec<char> = l.iter().cloned().filter(|c| *c != a).collect();
        let run = |n: usize| -> String { std::iter::repeat(a).take(n).collect() };
        let k = 2 + r2.below(3);
        let pats: Vec<(String, usize)> = match r2.below(4) {
            0 => vec![(format!("{}{}", others[0], run(k)), 7), (others[1].to_string(), 7), (others[2].to_string(), 7)],
            1 => vec![(run(k), 0), (String::new(), 1)],
            2 => vec![(run(k + 1), 0), ("()".to_string(), 1), (others[0].to_string(), 2)],
            _ => vec![(format!("{}{}", others[0], run(k)), 3), (others[1].to_string(), 3), (format!("{}{}", others[2], run(2)), 3), (others[3].to_string(), 5)],
        };
        let m = r2.below(spec.len());
        spec[m].patterns = pats.into_iter().map(|(p, t)| PatSpec { pattern: p, tid: t, lookahead: None }).collect();
        spec[m].transitions.clear();
        st.count("spare_terminal_id_templates", 1);
    }
    // accepting states of one token type whose continuations differ only late; a dead-end
    // accepting state numbered before one that continues
    if r2.chance(25) {
        let l = ['a', 'b', 'c', 'd', 'e', 'f'];
        let (a, b, c, d, e, f) = (*r2.pick(&l), *r2.pick(&l), *r2.pick(&l), *r2.pick(&l), *r2.pick(&l), *r2.pick(&l));
        let text = match r2.below(5) {
            0 => format!("{a}({b}{c}{d})?|{e}({b}{c}{f})?"),
            1 => format!("{a}[0-9]+(_{b}{c})?|{d}[0-9]+(_{b}{e})?"),
            2 => format!("{a}|[{b}-{c}{d}][0-9]*"),
            3 => format!("{a}({b}{c}{d}{e})?|{f}({b}{c}{d}{a})?"),
            _ => format!("=|(<|>)=?|{a}|{b}{a}?"),
        };
        let m = r2.below(spec.len());
        let k = r2.below(spec[m].patterns.len());
        spec[m].patterns[k].pattern = text;
        st.count("late_difference_templates", 1);
    }
    c03_case(idx, &spec, cache, out, st);
}

fn write_ranges(out: &mut String, t: &[(u32, u32)]) {
    for (lo, hi) in t {
        let _ = write!(out, " {} {}", lo, hi);
    }
    out.push('\n');
}

/// C08: one class expression; the real table against evaluation mirror and denotation.
fn class_case(idx: usize, text: &str, rcache: &RefCache, out: &mut String, st: &mut Stats) {
    st.cases += 1;
    let Some(br) = classgen::parse_bracketed(text) else {
        st.count("not_a_bracketed_class", 1);
        return;
    };
    let mode = scnr::ScannerMode::new("C", vec![scnr::Pattern::new(text.to_string(), 0)], vec![]);
    let built = catch_unwind(AssertUnwindSafe(|| {
        ScannerBuilder::new().add_scanner_mode(mode).build_uncached()
    }));
    let scanner = match built {
        Err(_) => {
            st.build_panic += 1;
            let _ = writeln!(out, "case {}\nexpect buildpanic\n# class {}", idx, text.escape_default());
            return;
        }
        Ok(Err(_)) => {
            st.build_err += 1;
            return;
        }
        Ok(Ok(s)) => s,
    };
    let d = scanner.verif_dump();
    if d.classes.len() != 1 {
        st.count("not_a_single_class", 1);
        return;
    }
    let real = proto::class_table(&scanner, 0);
    let mut env = classgen::Env::default();
    let mut ser = String::new();
    if classgen::ser_set(&br.kind, &mut env, rcache, &mut ser).is_none() {
        st.count("reference_unavailable", 1);
        return;
    }
    let _ = writeln!(out, "case {}\nexpect case {}\n# class {}", idx, idx, text.escape_default());
    out.push_str("scanner\n");
    for (i, t) in env.tables.iter().enumerate() {
        let _ = write!(out, "eclass {}", i);
        write_ranges(out, t);
    }
    let _ = writeln!(out, "cls {}{}", br.negated as u8, ser);
    out.push_str("real");
    write_ranges(out, &real);
    out.push_str("classcheck\nexpect classcheck ok\n");
    st.count("scalars_enumerated", 1_112_064);
    st.count("real_table_ranges", real.len());
    if text.contains('.') {
        st.count("with_dot_literal", 1);
    }
    if st.samples.len() < 5 {
        st.samples.push(text.to_string());
    }
}

/// C08: several classes in one scanner (one mode each, shared class registry): every class denotes
/// the set it denotes when used alone, whatever else is registered (a class and its complement,
/// a literal and its escaped spellings, the dot and the literal dot).
fn shared_class_case(seed: u64, idx: usize, rcache: &RefCache, out: &mut String, st: &mut Stats) {
    const POOL: [(&str, &str); 19] = [
        ("\\pL", "\\PL"), ("\\p{Alphabetic}", "\\P{Alphabetic}"), ("\\p{Cased}", "\\P{Cased}"),
        ("\\p{XID_Start}", "\\P{XID_Start}"), ("\\p{XID_Continue}", "\\P{XID_Continue}"), ("\\pN", "\\PN"),
        ("\\p{Uppercase}", "\\P{Uppercase}"), ("\\p{White_Space}", "\\P{White_Space}"),
        ("\\d", "\\D"), ("\\w", "\\W"), ("\\s", "\\S"), (".", "\\."), (".", "\\x2E"), ("a", "\\x61"), ("a", "\\u{61}"),
        ("[a]", "[^a]"), ("[[:alpha:]]", "[[:^alpha:]]"), ("[\\pL]", "[\\PL]"), ("[\\d]", "\\d"),
    ];
    let mut r = Rng::derive(seed ^ 0x0c08_5a5a, idx as u64);
    st.cases += 1;
    let mut texts: Vec<String> = Vec::new();
    for _ in 0..r.range(1, 3) {
        let (a, b) = *r.pick(&POOL);
        if r.chance(50) {
            texts.push(a.to_string());
            texts.push(b.to_string());
        } else {
            texts.push(b.to_string());
            if r.chance(80) {
                texts.push(a.to_string());
            }
        }
    }
    if r.chance(50) {
        let d = r.range(0, 2);
        texts.push(classgen::gen_bracket(&mut r, d, false));
    }
    if r.chance(40) {
        r.shuffle(&mut texts);
    }
    let modes: Vec<scnr::ScannerMode> = texts
        .iter()
        .enumerate()
        .map(|(i, t)| scnr::ScannerMode::new(&format!("M{}", i), vec![scnr::Pattern::new(t.clone(), 0)], vec![]))
        .collect();
    let built = catch_unwind(AssertUnwindSafe(|| ScannerBuilder::new().add_scanner_modes(&modes).build_uncached()));
    let desc = texts.iter().map(|t| t.escape_default().to_string()).collect::<Vec<_>>().join("  ");
    let scanner = match built {
        Err(_) => {
            st.build_panic += 1;
            let _ = writeln!(out, "case {}\nexpect buildpanic\n# classes {}", idx, desc);
            return;
        }
        Ok(Err(_)) => {
            st.build_err += 1;
            return;
        }
        Ok(Ok(s)) => s,
    };
    let d = scanner.verif_dump();
    let _ = writeln!(out, "case {}\nexpect case {}\n# classes in one scanner: {}", idx, idx, desc);
    out.push_str("scanner\n");
    // membership must not depend on what was asked before: all classes of the scanner are
    // evaluated character by character in an order that puts code points with equal low 16 bits
    // next to each other (U+0041, U+10041, ..., U+100041), and the answers are compared with the
    // plain ascending enumeration of each class below
    let n_cls = d.classes.len();
    let mut inter: Vec<Vec<u8>> = vec![vec![0u8; 0x110000 / 8 + 1]; n_cls];
    for low in 0u32..=0xFFFF {
        for plane in 0u32..=0x10 {
            let cp = (plane << 16) | low;
            if let Some(c) = char::from_u32(cp) {
                for id in 0..n_cls {
                    let m = catch_unwind(AssertUnwindSafe(|| scanner.verif_class_matches(id, c))).unwrap_or(false);
                    if m {
                        inter[id][(cp / 8) as usize] |= 1 << (cp % 8);
                    }
                }
            }
        }
    }
    let mut tables: std::collections::HashMap<usize, Vec<(u32, u32)>> = std::collections::HashMap::new();
    for (i, t) in texts.iter().enumerate() {
        let Some(alone) = rcache.class_leaf(t) else {
            st.count("reference_unavailable", 1);
            continue;
        };
        let start = &d.modes[i].dfa.states[0];
        if start.len() != 1 {
            let _ = writeln!(out, "oracle FAIL the automaton of the single class {} has {} transitions from its start state\nexpect oracle", t.escape_default(), start.len());
            continue;
        }
        let cc = start[0].0;
        let real = tables.entry(cc).or_insert_with(|| proto::class_table(&scanner, cc));
        // order independence: the table as a bitmap against the bitmap of the interleaved pass
        let mut bm: Vec<u8> = vec![0u8; 0x110000 / 8 + 1];
        for (lo, hi) in real.iter() {
            for cp in *lo..=*hi {
                bm[(cp / 8) as usize] |= 1 << (cp % 8);
            }
        }
        let order_diff: Option<u32> = bm.iter().zip(inter[cc].iter()).position(|(x, y)| x != y).map(|byte| {
            let x = bm[byte] ^ inter[cc][byte];
            (byte as u32) * 8 + x.trailing_zeros()
        });
        if let Some(cp) = order_diff {
            let _ = writeln!(out, "oracle FAIL membership of U+{:04X} in class {} depends on the order in which characters and classes are evaluated\nexpect oracle", cp, t.escape_default());
            continue;
        }
        if *real == *alone {
            out.push_str("oracle ok\nexpect oracle\n");
        } else {
            let diff = first_table_diff(real, &alone);
            let _ = writeln!(out, "oracle FAIL class {} denotes another set in a scanner that also contains the other classes than when used alone (first difference at code point {})\nexpect oracle", t.escape_default(), diff);
        }
        st.count("shared_registry_classes_checked", 1);
        st.count("scalars_enumerated", 1_112_064);
    }
}

fn first_table_diff(a: &[(u32, u32)], b: &[(u32, u32)]) -> u32 {
    let mem = |t: &[(u32, u32)], c: u32| t.iter().any(|(lo, hi)| *lo <= c && c <= *hi);
    let mut pts: Vec<u32> = Vec::new();
    for (lo, hi) in a.iter().chain(b.iter()) {
        pts.push(*lo);
        pts.push(hi.saturating_add(1));
    }
    pts.sort();
    pts.into_iter().find(|c| mem(a, *c) != mem(b, *c)).unwrap_or(0)
}

fn case_c08(seed: u64, idx: usize, rcache: &RefCache, out: &mut String, st: &mut Stats) {
    if idx % 10 == 7 {
        return shared_class_case(seed, idx, rcache, out, st);
    }
    let mut r = Rng::derive(seed, idx as u64);
    // a separately labelled stream (5 %) contains verbatim `.` literals (finding F3)
    let dot = idx % 20 == 19;
    let depth = r.range(0, 4);
    let text = classgen::gen_bracket(&mut r, depth, dot);
    class_case(idx, &text, rcache, out, st);
}

/// ASCII restrictions of \d \s \w and the classes of the repository corpora.
fn c08_fixed(rcache: &RefCache, out: &mut String, st: &mut Stats) {
    out.push_str("case 2000000\nexpect case 2000000\nscanner\n");
    for (name, expected) in [("\\d", "48 57"), ("\\s", "9 13 32 32"), ("\\w", "48 57 65 90 95 95 97 122")] {
        if let Some(t) = rcache.class_leaf(name) {
            out.push_str("real");
            write_ranges(out, &t);
            let _ = writeln!(out, "asciicheck {}", expected);
            out.push_str("expect asciicheck ok\n");
            st.count("ascii_restrictions_checked", 1);
        }
    }
    // all bracketed classes occurring in the corpora
    let mut seen = std::collections::BTreeSet::new();
    for (_, spec) in load_corpora() {
        for m in &spec {
            for p in &m.patterns {
                let mut texts = vec![p.pattern.clone()];
                if let Some((_, la)) = &p.lookahead {
                    texts.push(la.clone());
                }
                for t in texts {
                    if let Ok(ast) = regex_syntax::ast::parse::Parser::new().parse(&t) {
                        collect_classes(&ast, &mut seen);
                    }
                }
            }
        }
    }
    // chains of one set operator with three and more operands (left-nested), doubly negated POSIX
    // items
    const CHAINS: [&str; 28] = [
        "[a-c~~b-d~~c-e]", "[\\w~~\\d~~0-4]", "[a-z&&b-y&&c-x]", "[a-z--b-c--x]", "[^a-c~~b-d~~c-e]", "[a-c~~b-d~~c-e~~d-f]",
        "[[a-c~~b-d]~~c-e]", "[a-c~~[b-d~~c-e]]", "[^[:^alpha:]]", "[^[:^digit:]]", "[^[^[:^alpha:]]]", "[x[^[:^upper:]]]",
        "[a-e~~b-d~~c]", "[\\d~~\\d~~\\d]",
        // negated POSIX items whose positive set is ASCII-only; differences whose left operand is "larger"
        "[[:^ascii:]]", "[[:^blank:]]", "[[:^cntrl:]]", "[[:^graph:]]", "[[:^print:]]", "[[:^punct:]]", "[[:^xdigit:]]",
        "[x[:^ascii:]]", "[[:^ascii:]&&\\w]", "[\\w--a-z]", "[\\p{Alphabetic}--a-z]", "[\\w\\s--\\d]", "[\\w--\\d--_]", "[\\w--_]",
    ];
    for (k, text) in CHAINS.iter().enumerate() {
        class_case(2_100_000 + k, text, rcache, out, st);
        st.count("operator_chains_and_double_negations", 1);
    }
    for (i, text) in seen.iter().enumerate() {
        class_case(2_000_001 + i, text, rcache, out, st);
        st.count("corpus_classes", 1);
    }
}

fn collect_classes(ast: &regex_syntax::ast::Ast, out: &mut std::collections::BTreeSet<String>) {
    use regex_syntax::ast::Ast;
    match ast {
        Ast::ClassBracketed(_) => {
            out.insert(ast.to_string());
        }
        Ast::Repetition(r) => collect_classes(&r.ast, out),
        Ast::Group(g) => collect_classes(&g.ast, out),
        Ast::Alternation(a) => a.asts.iter().for_each(|x| collect_classes(x, out)),
        Ast::Concat(c) => c.asts.iter().for_each(|x| collect_classes(x, out)),
        _ => {}
    }
}

/// Writes the compile table and the dumps of the distinct compilations of a set of configurations.
/// Returns per configuration the compilation id (None = build error).
fn write_comps(out: &mut String, cfgs: &[Vec<ModeSpec>], cache: &TableCache, comps: &mut CompIds, with_dumps: bool) -> Vec<Option<usize>> {
    let mut res = Vec::new();
    let mut written = std::collections::BTreeSet::new();
    for (ci, spec) in cfgs.iter().enumerate() {
        let modes = cfggen::to_modes(spec);
        let built = catch_unwind(AssertUnwindSafe(|| {
            ScannerBuilder::new().add_scanner_modes(&modes).build_uncached()
        }));
        match built {
            Ok(Ok(sc)) => {
                let id = comps.id_of(&sc);
                if with_dumps && written.insert(id) {
                    let dump = sc.verif_dump();
                    let tables = cache.tables(&sc, &dump);
                    proto::write_scanner(out, &dump, &tables);
                    // configured transitions/names
                    for (m, mode) in spec.iter().enumerate() {
                        let _ = write!(out, "mode {}", m);
                        for (t, to) in &mode.transitions {
                            let _ = write!(out, " {} {}", t, to);
                        }
                        out.push('\n');
                        let _ = writeln!(out, "name {}{}", m, proto::cps(&mode.name));
                    }
                    let _ = writeln!(out, "savecomp {}", id);
                }
                let _ = writeln!(out, "compile {} {}", ci, id);
                res.push(Some(id));
            }
            _ => {
                let _ = writeln!(out, "compile {} err", ci);
                res.push(None);
            }
        }
    }
    res
}

fn is_iter_call(k: usize, op: &WOp) -> bool {
    matches!(op, WOp::Next { k: j } | WOp::Peek { k: j, .. } | WOp::SetOff { k: j, .. } | WOp::ISetMode { k: j, .. } | WOp::ICurMode { k: j } if *j == k)
}

fn affects_iter(k: usize, op: &WOp) -> bool {
    match op {
        WOp::Build { .. } | WOp::BuildU { .. } => true,
        WOp::FindIter { k: j, .. } | WOp::Drop { k: j } => *j == k,
        WOp::SSetMode { .. } | WOp::SCurMode { .. } => false,
        _ => is_iter_call(k, op),
    }
}

/// C12: interleaved histories over several iterators of several scanners (same cache entry,
/// uncached, other configuration) over several inputs.
/// C12 (extra case): previews must not change the tokens on inputs whose scan (previews included)
/// simulates around 2^16 characters: words of 65 500 … 65 545 letters between two numbers, iterated
/// plainly, with one preview and with three previews in front of the long word.
fn c12_long_peeks(idx: usize, out: &mut String, st: &mut Stats) {
    st.cases += 1;
    let _ = writeln!(out, "case {}\nexpect case {}\n# previews on inputs of about 2^16 characters", idx, idx);
    let built = catch_unwind(AssertUnwindSafe(|| {
        let m = scnr::ScannerMode::new("INITIAL", ["[0-9]+", "[a-z]+", "\\s+"].iter().enumerate().map(|(i, p)| scnr::Pattern::new(p.to_string(), i)), Vec::<(usize, usize)>::new());
        ScannerBuilder::new().add_scanner_mode(m).build_uncached()
    }));
    let scanner = match built {
        Ok(Ok(s)) => s,
        _ => {
            out.push_str("oracle FAIL the scanner of three simple patterns does not build\nexpect oracle\n");
            return;
        }
    };
    let mut bad: Option<String> = None;
    for n in 65_500usize..=65_545 {
        let input = format!("12 {} 345", "a".repeat(n));
        let want: Vec<(usize, usize, usize)> = vec![(0, 0, 2), (2, 2, 3), (1, 3, 3 + n), (2, 3 + n, 4 + n), (0, 4 + n, 7 + n)];
        for peeks in [0usize, 1, 3] {
            let got = catch_unwind(AssertUnwindSafe(|| {
                let mut it = scanner.find_iter(&input);
                let mut v: Vec<(usize, usize, usize)> = Vec::new();
                if peeks >= 1 {
                    let _ = it.peek_n(1);
                }
                if let Some(m) = it.next() {
                    v.push((m.token_type(), m.start(), m.end()));
                }
                for _ in 1..peeks {
                    let _ = it.peek_n(1);
                }
                for m in it.by_ref().take(12) {
                    v.push((m.token_type(), m.start(), m.end()));
                }
                v
            }));
            match got {
                Ok(v) if v == want => {}
                Ok(v) => {
                    if bad.is_none() {
                        bad = Some(format!("a word of {} letters between two numbers, {} preview(s): tokens {:?}, expected {:?}", n, peeks, v, want));
                    }
                }
                Err(_) => {
                    if bad.is_none() {
                        bad = Some(format!("scanning panicked (word of {} letters, {} previews)", n, peeks));
                    }
                }
            }
        }
    }
    st.inputs += 46;
    st.count("long_inputs_with_previews", 46 * 3);
    match bad {
        None => out.push_str("oracle ok\nexpect oracle\n"),
        Some(b) => {
            let _ = writeln!(out, "oracle FAIL {}\nexpect oracle", b);
        }
    }
}

fn case_c12(seed: u64, idx: usize, cache: &TableCache, out: &mut String, st: &mut Stats) {
    if idx >= EXTRA_BASE {
        return c12_long_peeks(idx, out, st);
    }
    let mut r = Rng::derive(seed, idx as u64);
    let pc = ProgCfg { max_modes: 3, max_patterns: 4, lookahead: 15, nullable: true, transitions: true, big_tids: false };
    let a = cfggen::gen_program(&mut r, &pc);
    let mut b = cfggen::gen_program(&mut r, &pc);
    // the other configuration is often a near-identical sibling of A (one field differs; sometimes
    // with a colliding 64-bit hash), built through the same cache
    let mut r2 = Rng::derive(seed ^ 0x0c12_b1b1, idx as u64);
    if r2.chance(40) {
        b = mutate_cfg(&mut r2, &a);
        st.count("other_configuration_is_a_sibling", 1);
    }
    let cfgs = vec![a.clone(), b.clone()];
    st.cases += 1;
    let mut comps = CompIds::default();
    let mut body = String::new();
    let _ = writeln!(body, "case {}\nexpect case {}\n# A: {} B: {}", idx, idx, describe(&a).replace('\n', "\\n"), describe(&b).replace('\n', "\\n"));
    body.push_str("world\n");
    let ids = write_comps(&mut body, &cfgs, cache, &mut comps, true);
    if ids[0].is_none() {
        st.build_err += 1;
        return;
    }
    // inputs: walks through A (and B)
    let sc_a = ScannerBuilder::new().add_scanner_modes(&cfggen::to_modes(&a)).build_uncached().unwrap();
    let dump_a = sc_a.verif_dump();
    let tables_a = cache.tables(&sc_a, &dump_a);
    let mut inputs: Vec<String> = (0..3).map(|_| cfggen::gen_input(&mut r, &dump_a, &tables_a, 7)).collect();
    // code points whose low 16 / 20 bits or low byte alias the letters of the alphabet, next to them
    let mut rx = Rng::derive(seed ^ 0x0c12_e0e0, idx as u64);
    if rx.chance(40) {
        for i in 0..inputs.len() {
            if rx.chance(60) {
                inputs[i] = cfggen::sprinkle_exotic(&mut rx, &inputs[i]);
            }
        }
    }
    // U+0000, preferably as the very first character a fresh compilation ever sees
    let mut rn = Rng::derive(seed ^ 0x0c12_0000, idx as u64);
    if rn.chance(30) {
        for i in 0..inputs.len() {
            if i == 0 || rn.chance(40) {
                inputs[i] = cfggen::inject_nul(&mut rn, &inputs[i]);
            }
        }
        st.count("cases_with_nul_characters", 1);
    }
    st.inputs += inputs.len();
    let n_modes = a.len().min(b.len());
    let mut ops: Vec<WOp> = vec![
        WOp::Build { s: 0, cfg: 0 },
        WOp::Build { s: 1, cfg: 0 },
        WOp::BuildU { s: 2, cfg: 0 },
        WOp::Build { s: 3, cfg: 1 },
    ];
    let n_scanners = if ids[1].is_some() { 4 } else { 3 };
    let mut iter_input: std::collections::HashMap<usize, usize> = Default::default();
    let n_ops = r.range(30, 90);
    for _ in 0..n_ops {
        let op = match r.below(100) {
            0..=39 => WOp::Next { k: r.below(4) },
            40..=49 => WOp::Peek { k: r.below(4), n: r.below(4) },
            50..=61 => {
                let (k, i) = (r.below(4), r.below(3));
                iter_input.insert(k, i);
                WOp::FindIter { s: r.below(n_scanners), k, input: i }
            }
            62..=69 => WOp::SSetMode { s: r.below(n_scanners), m: r.below(n_modes) },
            70..=74 => WOp::SCurMode { s: r.below(n_scanners) },
            75..=81 => WOp::ISetMode { k: r.below(4), m: r.below(n_modes) },
            82..=86 => WOp::ICurMode { k: r.below(4) },
            87..=93 => {
                let k = r.below(4);
                match iter_input.get(&k) {
                    Some(i) => WOp::SetOff { k, o: *r.pick(&world::boundaries(&inputs[*i])) },
                    None => WOp::ICurMode { k },
                }
            }
            _ => {
                let k = r.below(4);
                iter_input.remove(&k);
                WOp::Drop { k }
            }
        };
        // a peek is often followed by a mode change and a next on the same iterator
        if let WOp::Peek { k, .. } = op {
            ops.push(op.clone());
            if r.chance(35) {
                ops.push(WOp::ISetMode { k, m: r.below(n_modes) });
                ops.push(WOp::Next { k });
            }
            continue;
        }
        ops.push(op);
    }
    // interleaved run
    let mut w = RealWorld::new(&cfgs, &inputs);
    let mut results: Vec<Option<String>> = Vec::new();
    for op in &ops {
        let (line, res) = w.exec(op, &mut comps);
        world::emit(&mut body, &line, &res);
        results.push(res);
        *st.ops.entry(line.split(' ').next().unwrap().to_string()).or_default() += 1;
    }
    // implementation-only oracle: every iterator against its projected history on a fresh world
    for k in 0..4 {
        let mut w2 = RealWorld::new(&cfgs, &inputs);
        let mut bad: Option<String> = None;
        for (i, op) in ops.iter().enumerate() {
            if !affects_iter(k, op) {
                continue;
            }
            // (the scanners of the projected history are compiled from their own configuration
            // alone, without the cache)
            let op2 = match op {
                WOp::Build { s, cfg } => WOp::BuildU { s: *s, cfg: *cfg },
                o => o.clone(),
            };
            let (line, res) = w2.exec(&op2, &mut comps);
            if is_iter_call(k, op) && res != results[i] && bad.is_none() {
                bad = Some(format!("iterator {} op #{} `{}`: interleaved {:?} vs projected history {:?}", k, i, line, results[i], res));
            }
        }
        match bad {
            None => body.push_str("oracle ok\nexpect oracle\n"),
            Some(msg) => {
                let _ = writeln!(body, "oracle FAIL {}\nexpect oracle", msg.replace('\n', " "));
            }
        }
        // ... and against its history without its own peeks
        let mut w3 = RealWorld::new(&cfgs, &inputs);
        let mut bad: Option<String> = None;
        for (i, op) in ops.iter().enumerate() {
            if !affects_iter(k, op) || matches!(op, WOp::Peek { .. }) {
                continue;
            }
            let (line, res) = w3.exec(op, &mut comps);
            if is_iter_call(k, op) && res != results[i] && bad.is_none() {
                bad = Some(format!("iterator {} op #{} `{}`: with peeks {:?} vs without peeks {:?}", k, i, line, results[i], res));
            }
        }
        match bad {
            None => body.push_str("oracle ok\nexpect oracle\n"),
            Some(msg) => {
                let _ = writeln!(body, "oracle FAIL {}\nexpect oracle", msg.replace('\n', " "));
            }
        }
    }
    out.push_str(&body);
    if st.samples.len() < 2 {
        st.samples.push(format!("{} ops over 4 iterators, scanners built from A (cached x2, uncached) and B; inputs {:?}", ops.len(), inputs));
    }
}

/// Mutates one field of a configuration (token type, pattern order, lookahead, polarity,
/// transition, mode name).
fn mutate_cfg(r: &mut Rng, base: &[ModeSpec]) -> Vec<ModeSpec> {
    let mut c = base.to_vec();
    let m = r.below(c.len());
    // near-identical configuration whose 64-bit FxHash (polynomial: h = (h + w) * K) collides with
    // the original: two consecutive hashed words (w1, w2) -> (w1 - 1, w2 + K)
    if r.chance(25) {
        // (token type, target) of the last transition: (t, to) -> (t + 1/K, to - 1)
        if r.chance(50) {
            for mode in c.iter_mut() {
                let n = mode.transitions.len();
                if n >= 1 && mode.transitions[n - 1].1 >= 1 {
                    const KINV: u64 = 0x781494a55daaed0d;
                    let t = (mode.transitions[n - 1].0 as u64).wrapping_add(KINV) as usize;
                    if mode.transitions.iter().all(|x| x.0 < t) {
                        mode.transitions[n - 1] = (t, mode.transitions[n - 1].1 - 1);
                        return c;
                    }
                }
            }
        }
        for mode in c.iter_mut() {
            if mode.transitions.len() >= 2 && mode.transitions[0].1 >= 1 {
                const K: u64 = 0xf1357aea2e62a9c5;
                mode.transitions[0].1 -= 1;
                let t = (mode.transitions[1].0 as u64).wrapping_add(K) as usize;
                if t > mode.transitions[0].0 && mode.transitions.iter().skip(2).all(|x| x.0 > t) {
                    mode.transitions[1].0 = t;
                    return c;
                }
                mode.transitions[0].1 += 1;
            }
        }
    }
    // the boundary between two adjacent texts of the configuration moves by one character:
    // `a(?=bc)`, `d` / `a(?=b)`, `cd`; `ab(?=c)` / `a(?=bc)`; `ab`, `c` / `a`, `bc`; name `M0a`, `b` / `M0`, `ab`
    if r.chance(18) {
        let np = c[m].patterns.len();
        let kind = r.below(4);
        let p = r.below(np);
        let pop = |t: &mut String| -> Option<char> { if t.chars().count() >= 2 { t.pop() } else { None } };
        let mut done = false;
        if kind == 0 && p + 1 < np {
            if let Some((_, la)) = c[m].patterns[p].lookahead.as_mut() {
                if let Some(x) = pop(la) {
                    c[m].patterns[p + 1].pattern.insert(0, x);
                    done = true;
                }
            }
        }
        if !done && kind <= 1 {
            if c[m].patterns[p].lookahead.is_some() {
                if let Some(x) = pop(&mut c[m].patterns[p].pattern) {
                    c[m].patterns[p].lookahead.as_mut().unwrap().1.insert(0, x);
                    done = true;
                }
            }
        }
        if !done && kind <= 2 && p + 1 < np && c[m].patterns[p].lookahead.is_none() {
            if let Some(x) = pop(&mut c[m].patterns[p].pattern) {
                c[m].patterns[p + 1].pattern.insert(0, x);
                done = true;
            }
        }
        if !done {
            if let Some(x) = pop(&mut c[m].name) {
                c[m].patterns[0].pattern.insert(0, x);
                done = true;
            }
        }
        if done {
            return c;
        }
    }
    match r.below(7) {
        0 => {
            let p = r.below(c[m].patterns.len());
            c[m].patterns[p].tid += 100;
            c[m].transitions.retain(|_| false);
        }
        1 => {
            if c[m].patterns.len() >= 2 {
                c[m].patterns.swap(0, 1);
            } else {
                c[m].name.push('x');
            }
        }
        2 => {
            let p = r.below(c[m].patterns.len());
            c[m].patterns[p].lookahead = match &c[m].patterns[p].lookahead {
                Some(_) => None,
                None => Some((true, "a".to_string())),
            };
        }
        3 => {
            let p = r.below(c[m].patterns.len());
            c[m].patterns[p].lookahead = match &c[m].patterns[p].lookahead {
                Some((pos, la)) => Some((!*pos, la.clone())),
                None => Some((false, "b".to_string())),
            };
        }
        4 => {
            if c[m].transitions.is_empty() {
                let t = c[m].patterns[0].tid;
                c[m].transitions.push((t, 0));
            } else {
                c[m].transitions.pop();
            }
        }
        5 => c[m].name.push('_'),
        _ => {
            let p = r.below(c[m].patterns.len());
            c[m].patterns[p].pattern.push('a');
        }
    }
    c
}

/// Observable behaviour of a scanner on an input: mode names, and per start mode the token stream
/// (with the mode after every token) and a preview.
fn behaviour_of(sc: &scnr::Scanner, input: &str, n_modes: usize) -> String {
    use scnr::ScannerModeSwitcher;
    match catch_unwind(AssertUnwindSafe(|| {
        let mut o = String::new();
        for m in 0..n_modes + 1 {
            let _ = write!(o, "name{}={:?};", m, sc.mode_name(m));
        }
        for m in 0..n_modes {
            let mut it = sc.find_iter(input);
            it.set_mode(m);
            let _ = write!(o, " from{}: {} |", m, real::fmt_peek(&it.peek_n(4)));
            for _ in 0..input.len() + 2 {
                match it.next() {
                    Some(t) => {
                        let _ = write!(o, " {}@{}", real::fmt_tok(&t), it.current_mode());
                    }
                    None => break,
                }
            }
        }
        o
    })) {
        Ok(s) => s,
        Err(_) => "panic".to_string(),
    }
}

fn tokens_of(sc: &scnr::Scanner, input: &str) -> String {
    match catch_unwind(AssertUnwindSafe(|| sc.find_iter(input).take(input.len() + 2).map(|m| real::fmt_tok(&m)).collect::<Vec<_>>().join(" "))) {
        Ok(s) => s,
        Err(_) => "panic".to_string(),
    }
}

/// C13: sequences of cached builds of equal, near-identical, unrelated and failing configurations.
fn case_c13(seed: u64, idx: usize, cache: &TableCache, out: &mut String, st: &mut Stats) {
    let mut r = Rng::derive(seed, idx as u64);
    let pc = ProgCfg { max_modes: 2, max_patterns: 4, lookahead: 30, nullable: false, transitions: true, big_tids: true };
    let mut base = cfggen::gen_program(&mut r, &pc);
    // twin modes: a second (or third) mode with the patterns of mode 0, differing in one lookahead
    // (present/absent, polarity) only
    let mut r8 = Rng::derive(seed ^ 0x0c13_7117, idx as u64);
    if r8.chance(30) {
        let mut twin = base[0].clone();
        twin.name = format!("{}T", twin.name);
        let k = r8.below(twin.patterns.len());
        twin.patterns[k].lookahead = match &twin.patterns[k].lookahead {
            Some((pos, la)) if r8.chance(50) => Some((!*pos, la.clone())),
            Some(_) => None,
            None => Some((r8.chance(50), r8.pick(&["a", "b", "[a-c]"]).to_string())),
        };
        base.push(twin);
        st.count("twin_modes_differing_in_a_lookahead", 1);
    }
    // a fifth of the cases: transition tables as the deserializer accepts them (unsorted); all
    // configurations of the case are then read through serde
    let via_serde = r8.chance(20);
    if via_serde {
        for m in base.iter_mut() {
            if m.transitions.len() >= 2 {
                m.transitions.reverse();
            }
        }
        st.count("configurations_read_through_serde_with_unsorted_transitions", 1);
    }
    let other = cfggen::gen_program(&mut r, &pc);
    let mut cfgs: Vec<Vec<ModeSpec>> = vec![base.clone(), other];
    if via_serde {
        // the twin with sorted tables (differs from the base only in the order of the transitions)
        let mut twin = base.clone();
        for m in twin.iter_mut() {
            m.transitions.sort();
        }
        cfgs.push(twin);
    }
    if base.len() >= 2 && r8.chance(30) {
        // the same modes in another order
        let mut perm = base.clone();
        perm.reverse();
        cfgs.push(perm);
        st.count("configurations_with_permuted_mode_lists", 1);
    }
    for _ in 0..4 {
        let src = if r.chance(70) { base.clone() } else { cfgs[r.below(cfgs.len())].clone() };
        cfgs.push(mutate_cfg(&mut r, &src));
    }
    // failing configurations: syntax error, unsupported feature
    let mut bad1 = base.clone();
    bad1[0].patterns[0].pattern = "[".to_string();
    let mut bad2 = base.clone();
    bad2[0].patterns[0].pattern = "a\\b".to_string();
    cfgs.push(bad1);
    cfgs.push(bad2);
    // a build that fails late (an unknown Unicode class, detected when the match functions are
    // created) after it registered a new supported class; the configurations after it bring new classes
    let mut bad3 = base.clone();
    bad3[0].patterns[0].pattern = "\\p{Alphabetic}+|[k-q]".to_string();
    let extra_tid = bad3[0].patterns.iter().map(|p| p.tid).max().unwrap_or(0) + 11;
    bad3[0].patterns.push(PatSpec { pattern: "\\p{Greek}+".to_string(), tid: extra_tid, lookahead: None });
    cfgs.push(bad3);
    let mut after3 = base.clone();
    after3[0].patterns[0].pattern = "[a-x]+|[0-9]".to_string();
    cfgs.push(after3);
    // many distinct tiny configurations in the first case only (cache growth)
    let n_tiny = if idx == 0 { 1300 } else { 0 };
    let first_tiny = cfgs.len();
    for i in 0..n_tiny {
        cfgs.push(vec![ModeSpec {
            name: "T".into(),
            patterns: vec![PatSpec { pattern: format!("t{}", i), tid: i % 7, lookahead: None }],
            transitions: vec![],
        }]);
    }
    // configuration ids by structural equality of the real mode lists
    let real_modes: Vec<Vec<scnr::ScannerMode>> = if via_serde {
        match cfgs.iter().map(|c| cfggen::to_modes_json(c)).collect::<Option<Vec<_>>>() {
            Some(v) => v,
            None => return,
        }
    } else {
        cfgs.iter().map(|c| cfggen::to_modes(c)).collect()
    };
    let mut canon: Vec<usize> = Vec::new();
    for i in 0..cfgs.len() {
        let mut id = i;
        for j in 0..i.min(first_tiny) {
            if real_modes[j] == real_modes[i] {
                id = canon[j];
                break;
            }
        }
        canon.push(id);
    }
    st.cases += 1;
    let mut comps = CompIds::default();
    let mut body = String::new();
    let _ = writeln!(body, "case {}\nexpect case {}\n# base: {}", idx, idx, describe(&base).replace('\n', "\\n"));
    body.push_str("world\n");
    // the cache key, structurally: the derived `==` of the real mode lists against the Lean `keyEq`
    // on the serde trees of the same lists (pairs among the ordinary configurations of the case);
    // equal keys must also hash equally
    {
        use std::hash::{Hash, Hasher};
        let trees: Vec<Option<String>> = real_modes[..first_tiny]
            .iter()
            .map(|m| {
                serde_json::to_value(m).ok().map(|v| {
                    let mut t = String::new();
                    jsonser::ser_value(&v, &mut t);
                    t
                })
            })
            .collect();
        let hash_of = |m: &Vec<scnr::ScannerMode>| {
            let mut h = std::collections::hash_map::DefaultHasher::new();
            m.hash(&mut h);
            h.finish()
        };
        for i in 0..first_tiny {
            for j in 0..=i {
                let (Some(a), Some(b)) = (&trees[i], &trees[j]) else { continue };
                let eq = real_modes[i] == real_modes[j];
                let _ = writeln!(body, "keyeq{}{}\nexpect keyeq {}", a, b, eq);
                st.count("key_equality_pairs_compared_with_the_structural_model", 1);
                if eq {
                    st.count("key_equality_pairs_equal", 1);
                    if hash_of(&real_modes[i]) != hash_of(&real_modes[j]) {
                        body.push_str("oracle FAIL two equal mode lists hash differently\nexpect oracle\n");
                    }
                }
            }
        }
    }
    // compile table (uncached builds); the dumps themselves are not needed by the model here
    let mut uncached: Vec<Option<scnr::Scanner>> = Vec::new();
    for (ci, modes) in real_modes.iter().enumerate() {
        let r_ = catch_unwind(AssertUnwindSafe(|| ScannerBuilder::new().add_scanner_modes(modes).build_uncached()));
        match r_ {
            Ok(Ok(sc)) => {
                let id = comps.id_of(&sc);
                if canon[ci] == ci {
                    let _ = writeln!(body, "compile {} {}", ci, id);
                }
                uncached.push(Some(sc));
            }
            _ => {
                if canon[ci] == ci {
                    let _ = writeln!(body, "compile {} err", ci);
                }
                uncached.push(None);
            }
        }
    }
    // inputs for the behavioural comparison
    let inputs: Vec<String> = match &uncached[0] {
        Some(sc) => {
            let d = sc.verif_dump();
            let t = cache.tables(sc, &d);
            (0..3).map(|_| cfggen::gen_input(&mut r, &d, &t, 6)).collect()
        }
        None => vec!["ab".to_string()],
    };
    // an input on which every tiny configuration yields its own token
    let mut inputs = inputs;
    if n_tiny > 0 {
        inputs.push((0..n_tiny).map(|i| format!("t{} ", i)).collect::<String>());
    }
    // the build sequence
    let mut seq: Vec<usize> = Vec::new();
    for _ in 0..r.range(10, 30) {
        seq.push(r.below(first_tiny));
    }
    if n_tiny > 0 {
        // (earlier configurations are requested again while the cache grows: the first one ever
        // built, the first tiny one, and those around 256, 512 and 1024 builds back)
        // (the first configuration that actually entered the cache: the first one that builds)
        let first = *seq.iter().find(|c| uncached[**c].is_some()).unwrap_or(&seq[0]);
        for i in first_tiny..cfgs.len() {
            seq.push(i);
            if (i - first_tiny) % 37 == 36 {
                seq.push(first);
                seq.push(first_tiny);
                // (windows around 256, 512 and 1024 builds back: the exact distance at which a bounded
                // cache would have dropped an entry depends on how many entries preceded the tiny ones)
                for back in std::iter::once(1usize).chain(249..=263).chain(505..=519).chain(1017..=1031) {
                    if i >= first_tiny + back {
                        seq.push(i - back);
                    }
                }
            }
        }
        // failing builds after the cache has grown, twice each, then earlier ones again
        seq.extend([first_tiny - 4, first_tiny - 4, first_tiny - 3, first_tiny - 3, first_tiny - 2, first_tiny - 2, first_tiny - 1, 0, 2, first_tiny, first_tiny + 5]);
        // every configuration of this case once more, starting with the very first one built
        // (this case runs before all others: it is the first configuration the process built)
        seq.push(seq[0]);
        seq.extend(0..cfgs.len());
    }
    for (step, ci) in seq.iter().enumerate() {
        let modes = &real_modes[*ci];
        let built = catch_unwind(AssertUnwindSafe(|| ScannerBuilder::new().add_scanner_modes(modes).build()));
        let _ = writeln!(body, "wbuild {} {}", step % 8, canon[*ci]);
        *st.ops.entry("build".into()).or_default() += 1;
        match built {
            Err(_) => body.push_str("expect panic\n"),
            Ok(Err(_)) => {
                body.push_str("expect builderr\n");
                st.count("failing_builds", 1);
                if uncached[*ci].is_some() {
                    body.push_str("oracle FAIL build returned an error but build_uncached of the same modes succeeds\nexpect oracle\n");
                }
            }
            Ok(Ok(sc)) => {
                let _ = writeln!(body, "expect built {}", comps.id_of(&sc));
                // behaviour: identical to the uncached scanner on the inputs
                match &uncached[*ci] {
                    None => body.push_str("oracle FAIL build returned a scanner but build_uncached of the same modes fails\nexpect oracle\n"),
                    Some(u) => {
                        let mut bad = None;
                        for inp in &inputs {
                            let nm = real_modes[*ci].len();
                            let (a, b) = (behaviour_of(&sc, inp, nm), behaviour_of(u, inp, nm));
                            if a != b {
                                bad = Some(format!("cached scanner of configuration {} yields [{}] but the uncached one [{}] on {:?}", ci, a, b, inp));
                                break;
                            }
                        }
                        match bad {
                            None => body.push_str("oracle ok\nexpect oracle\n"),
                            Some(m) => {
                                let _ = writeln!(body, "oracle FAIL {}\nexpect oracle", m.replace('\n', "\\n"));
                            }
                        }
                    }
                }
            }
        }
    }
    st.count("distinct_configurations", canon.iter().enumerate().filter(|(i, c)| *i == **c).count());
    out.push_str(&body);
    if st.samples.len() < 2 {
        st.samples.push(format!("{} builds over {} configurations (base, 4 one-field mutations, unrelated, 2 failing{}); base {}", seq.len(), cfgs.len(), if n_tiny > 0 { ", 1300 tiny" } else { "" }, describe(&base)));
    }
}

fn assert_send_sync<T: Send + Sync>() {}

/// C14: N threads build through the shared cache (simultaneous misses on a slow configuration,
/// hits, failing builds, private configurations) and scan with private scanners and one shared
/// scanner. Every thread's program is emitted as its own case: the Lean world runs it alone.
fn c14_round(seed: u64, round: usize, cache: &TableCache, out: &mut String, st: &mut Stats) -> bool {
    // compile-time part of the property
    assert_send_sync::<scnr::Scanner>();
    assert_send_sync::<scnr::ScannerBuilder>();
    assert_send_sync::<scnr::ScannerMode>();
    let n_threads = 8usize;
    let mut r = Rng::derive(seed, round as u64);
    let pc = ProgCfg { max_modes: 2, max_patterns: 4, lookahead: 20, nullable: false, transitions: true, big_tids: false };
    let a = cfggen::gen_program(&mut r, &pc);
    // a configuration nobody has built yet whose compilation takes a while
    let slow = vec![ModeSpec {
        name: format!("SLOW{}_{}", seed, round),
        patterns: vec![
            PatSpec { pattern: format!("[a-c]{{{}}}x", 250 + r.below(100)), tid: 1, lookahead: None },
            PatSpec { pattern: "[a-c]+".into(), tid: 2, lookahead: None },
        ],
        transitions: vec![],
    }];
    let mut bad = a.clone();
    bad[0].patterns[0].pattern = "(".to_string();
    let mut cfgs: Vec<Vec<ModeSpec>> = vec![a.clone(), slow, bad];
    // (index 3 + n_threads: the modes of configuration 0 in reverse order)
    for t in 0..n_threads {
        cfgs.push(vec![ModeSpec {
            name: format!("P{}_{}_{}", seed, round, t),
            patterns: vec![PatSpec { pattern: format!("p{}|[a-c]", t), tid: t, lookahead: None }],
            transitions: vec![],
        }]);
    }
    let perm_idx = cfgs.len();
    {
        let mut perm = a.clone();
        perm.reverse();
        cfgs.push(perm);
    }
    let mut comps = CompIds::default();
    let mut prologue = String::new();
    prologue.push_str("world\n");
    let ids = write_comps(&mut prologue, &cfgs, cache, &mut comps, true);
    if ids[0].is_none() {
        return true;
    }
    let shared = std::sync::Arc::new(ScannerBuilder::new().add_scanner_modes(&cfggen::to_modes(&a)).build_uncached().unwrap());
    let dump_a = shared.verif_dump();
    let tables_a = cache.tables(&shared, &dump_a);
    let mut inputs: Vec<String> = (0..3).map(|_| cfggen::gen_input(&mut r, &dump_a, &tables_a, 7)).collect();
    inputs.push("abcabcx abc p3 cab".to_string());
    let comps = std::sync::Arc::new(std::sync::Mutex::new(comps));
    let barrier = std::sync::Arc::new(std::sync::Barrier::new(n_threads));
    let (tx, rx) = std::sync::mpsc::channel::<(usize, String)>();
    // phase 1 = the simultaneous first build only; nobody continues before all are through it
    let (tx1, rx1) = std::sync::mpsc::channel::<usize>();
    let go2 = std::sync::Arc::new(std::sync::atomic::AtomicBool::new(false));
    for t in 0..n_threads {
        let tx1 = tx1.clone();
        let go2 = go2.clone();
        let mut tr = Rng::derive(seed ^ 0x5151, (round * 64 + t) as u64);
        let cfgs = cfgs.clone();
        let inputs = inputs.clone();
        let shared = shared.clone();
        let comps = comps.clone();
        let barrier = barrier.clone();
        let tx = tx.clone();
        std::thread::spawn(move || {
            let mut w = RealWorld::new(&cfgs, &inputs);
            w.shared = Some(shared);
            let mut ops: Vec<WOp> = vec![
                WOp::Build { s: 0, cfg: 1 },
                WOp::FindIter { s: 0, k: 0, input: 3 },
                WOp::Next { k: 0 },
                WOp::Build { s: 1, cfg: 0 },
                WOp::Build { s: 2, cfg: 2 },
                WOp::Build { s: 3, cfg: 3 + t },
                WOp::FindIter { s: 99, k: 1, input: tr.below(3) },
                WOp::FindIter { s: 1, k: 2, input: tr.below(3) },
                WOp::FindIter { s: 3, k: 3, input: 3 },
            ];
            for _ in 0..tr.range(20, 60) {
                ops.push(match tr.below(10) {
                    0..=5 => WOp::Next { k: tr.below(4) },
                    6 => WOp::Peek { k: tr.below(4), n: tr.below(3) },
                    7 => WOp::FindIter { s: *tr.pick(&[0, 1, 3, 99]), k: tr.below(4), input: tr.below(4) },
                    8 => WOp::Build { s: 1, cfg: *tr.pick(&[0, 1, 2, perm_idx, perm_idx]) },
                    _ => match tr.below(4) {
                        0 => WOp::SSetMode { s: *tr.pick(&[0, 1, 3]), m: tr.below(2) },
                        1 | 2 => WOp::SCurMode { s: *tr.pick(&[0, 1, 3]) },
                        _ => WOp::ICurMode { k: tr.below(4) },
                    },
                });
            }
            let mut body = String::new();
            barrier.wait();
            for (opi, op) in ops.iter().enumerate() {
                if opi == 1 {
                    let _ = tx1.send(t);
                    while !go2.load(std::sync::atomic::Ordering::SeqCst) {
                        std::thread::sleep(std::time::Duration::from_millis(1));
                    }
                }
                let (line, res) = {
                    // the id bookkeeping of the harness is serialised; the calls into scnr are not
                    match op {
                        WOp::Build { .. } | WOp::BuildU { .. } => {
                            let (line, res) = w.exec_build_unlocked(op);
                            match res {
                                Ok(Some(sc_dump_key)) => {
                                    let mut c = comps.lock().unwrap();
                                    let n = c.ids.len();
                                    let id = *c.ids.entry(sc_dump_key).or_insert(n);
                                    (line, Some(format!("built {}", id)))
                                }
                                Ok(None) => (line, Some("builderr".to_string())),
                                Err(_) => (line, Some("panic".to_string())),
                            }
                        }
                        _ => {
                            let mut dummy = CompIds::default();
                            w.exec(op, &mut dummy)
                        }
                    }
                };
                world::emit(&mut body, &line, &res);
            }
            let _ = tx.send((t, body));
        });
    }
    drop(tx);
    drop(tx1);
    let mut through: Vec<bool> = vec![false; n_threads];
    let d1 = std::time::Instant::now() + std::time::Duration::from_secs(30);
    let mut n1 = 0;
    while n1 < n_threads {
        match rx1.recv_timeout(d1.saturating_duration_since(std::time::Instant::now())) {
            Ok(t) => {
                through[t] = true;
                n1 += 1;
            }
            Err(_) => break,
        }
    }
    if n1 < n_threads {
        let stuck: Vec<usize> = (0..n_threads).filter(|t| !through[*t]).collect();
        st.cases += 1;
        let _ = writeln!(out, "case {}
expect case {}
# round {}", round * n_threads, round * n_threads, round);
        let _ = writeln!(out, "oracle FAIL threads {:?} of {} did not return from a simultaneous ScannerBuilder::build of the same uncached modes within 30 s (deadlock)
expect oracle", stuck, n_threads);
        return false;
    }
    go2.store(true, std::sync::atomic::Ordering::SeqCst);
    let mut bodies: Vec<Option<String>> = vec![None; n_threads];
    let deadline = std::time::Instant::now() + std::time::Duration::from_secs(90);
    let mut done = 0;
    while done < n_threads {
        let left = deadline.saturating_duration_since(std::time::Instant::now());
        match rx.recv_timeout(left) {
            Ok((t, b)) => {
                bodies[t] = Some(b);
                done += 1;
            }
            Err(_) => break,
        }
    }
    let shared_id = ids[0].unwrap();
    for t in 0..n_threads {
        st.cases += 1;
        let idx = round * n_threads + t;
        let _ = writeln!(out, "case {}\nexpect case {}\n# round {} thread {}", idx, idx, round, t);
        out.push_str(&prologue);
        // the shared scanner (built before the threads started) in slot 99
        let _ = writeln!(out, "wbuildu 99 0\nexpect built {}", shared_id);
        match &bodies[t] {
            Some(b) => {
                out.push_str(b);
                *st.ops.entry("thread_programs".into()).or_default() += 1;
            }
            None => {
                let _ = writeln!(out, "oracle FAIL thread {} of round {} did not finish within 90 s (deadlock or livelock in build/scan)\nexpect oracle", t, round);
            }
        }
    }
    done == n_threads
}

/// C14: many concurrent scans of one shared scanner and many concurrent builds (hits through
/// `add_patterns`, misses, failing builds), every result compared with the sequential one; a
/// watchdog reports missing progress as a deadlock.
fn c14_hammer(seed: u64, round: usize, out: &mut String, st: &mut Stats) -> bool {
    use std::sync::atomic::{AtomicUsize, Ordering};
    use std::sync::Arc;
    let idx = 5_000_000 + round;
    st.cases += 1;
    let _ = writeln!(out, "case {}\nexpect case {}\n# concurrent scans and builds, round {}", idx, idx, round);
    // --- scans of one shared scanner
    let modes = vec![scnr::ScannerMode::new(
        "H",
        vec![
            scnr::Pattern::new("[a-c]+".to_string(), 0),
            scnr::Pattern::new("[0-9]+".to_string(), 1),
            scnr::Pattern::new("\\s+".to_string(), 2),
            scnr::Pattern::new("[x-z][a-c0-9]*".to_string(), 3),
            scnr::Pattern::new("if".to_string(), 4).with_lookahead(scnr::Lookahead::new(true, "\\s".to_string())),
            scnr::Pattern::new("([α-ω]|[а-я])+".to_string(), 5),
        ],
        vec![],
    )];
    let shared = Arc::new(ScannerBuilder::new().add_scanner_modes(&modes).build_uncached().unwrap());
    let mut r = Rng::derive(seed ^ 0x14aa, round as u64);
    let inputs: Vec<String> = (0..4)
        .map(|_| (0..60).map(|_| *r.pick(&["abc", "cab", "012", "9", " ", "x1a", "zb", "if ", "ifa", "aa", "77", "\n", "αβγ", "жзи", "ωα", "яа", "é"])).collect::<String>())
        .collect();
    // (expected streams from a separate instance: the shared scanner is untouched until the threads start)
    let reference = ScannerBuilder::new().add_scanner_modes(&modes).build_uncached().unwrap();
    let expected: Vec<String> = inputs.iter().map(|i| tokens_of(&reference, i)).collect();
    let n_threads = 8;
    let progress = Arc::new(AtomicUsize::new(0));
    let (tx, rx) = std::sync::mpsc::channel::<(usize, Option<String>)>();
    for t in 0..n_threads {
        let (shared, inputs, expected, progress, tx) = (shared.clone(), inputs.clone(), expected.clone(), progress.clone(), tx.clone());
        std::thread::spawn(move || {
            let mut bad = None;
            for k in 0..300 {
                let i = (k + t) % inputs.len();
                let got = tokens_of(&shared, &inputs[i]);
                if got != expected[i] && bad.is_none() {
                    bad = Some(format!("thread {} scan #{} of the shared scanner on {:?}: [{}] but sequentially [{}]", t, k, inputs[i], got, expected[i]));
                }
                progress.fetch_add(1, Ordering::Relaxed);
            }
            let _ = tx.send((t, bad));
        });
    }
    drop(tx);
    let mut ok = true;
    let mut done = 0;
    let mut first_bad: Option<String> = None;
    let deadline = std::time::Instant::now() + std::time::Duration::from_secs(60);
    while done < n_threads {
        match rx.recv_timeout(deadline.saturating_duration_since(std::time::Instant::now())) {
            Ok((_, b)) => {
                done += 1;
                if first_bad.is_none() {
                    first_bad = b;
                }
            }
            Err(_) => break,
        }
    }
    if done < n_threads {
        let _ = writeln!(out, "oracle FAIL {} of {} threads scanning one shared scanner did not finish within 60 s\nexpect oracle", n_threads - done, n_threads);
        ok = false;
    } else if let Some(b) = first_bad {
        let _ = writeln!(out, "oracle FAIL {}\nexpect oracle", b.replace('\n', "\\n"));
    } else {
        out.push_str("oracle ok\nexpect oracle\n");
    }
    st.count("concurrent_scans_of_one_scanner", n_threads * 300);
    // --- cold starts: a fresh scanner per repetition, all threads make their first scan at once
    {
        let cold_input = "λάμδα жзик αβγ ωα яа éü 12 abc λάμδα";
        let cold_expected = tokens_of(&reference, cold_input);
        let mut cold_bad: Option<String> = None;
        let reps = 150;
        for rep in 0..reps {
            let fresh = Arc::new(ScannerBuilder::new().add_scanner_modes(&modes).build_uncached().unwrap());
            let barrier = Arc::new(std::sync::Barrier::new(4));
            let mut hs = Vec::new();
            for _ in 0..4 {
                let (fresh, barrier) = (fresh.clone(), barrier.clone());
                hs.push(std::thread::spawn(move || {
                    barrier.wait();
                    tokens_of(&fresh, cold_input)
                }));
            }
            for h in hs {
                match h.join() {
                    Ok(got) => {
                        if got != cold_expected && cold_bad.is_none() {
                            cold_bad = Some(format!("first concurrent scans of a fresh scanner (repetition {}) on {:?}: [{}] but sequentially [{}]", rep, cold_input, got, cold_expected));
                        }
                    }
                    Err(_) => {
                        if cold_bad.is_none() {
                            cold_bad = Some("a thread scanning a fresh shared scanner panicked".to_string());
                        }
                    }
                }
            }
        }
        match cold_bad {
            None => out.push_str("oracle ok\nexpect oracle\n"),
            Some(b) => {
                let _ = writeln!(out, "oracle FAIL {}\nexpect oracle", b);
            }
        }
        st.count("cold_start_concurrent_scans", reps * 4);
    }
    // --- simultaneous FIRST builds of one configuration through `add_patterns` (the simple builder's
    // path into the cache): 6 threads behind a barrier, a new pattern list every repetition
    {
        let reps = 120usize;
        let mut bad: Option<String> = None;
        for rep in 0..reps {
            let pats: Vec<String> = vec![format!("s{}_{}_{}", seed % 1000, round, rep), "[a-c]+".to_string(), " +".to_string()];
            let probe = format!("s{}_{}_{} ab", seed % 1000, round, rep);
            let want = format!("0:0:{} 2:{}:{} 1:{}:{}", probe.len() - 3, probe.len() - 3, probe.len() - 2, probe.len() - 2, probe.len());
            let barrier = Arc::new(std::sync::Barrier::new(6));
            let (tx, rx) = std::sync::mpsc::channel::<Result<String, ()>>();
            for _ in 0..6 {
                let (pats, probe, barrier, tx) = (pats.clone(), probe.clone(), barrier.clone(), tx.clone());
                std::thread::spawn(move || {
                    barrier.wait();
                    let r = catch_unwind(AssertUnwindSafe(|| match ScannerBuilder::new().add_patterns(pats).build() {
                        Ok(s) => tokens_of(&s, &probe),
                        Err(_) => "builderr".to_string(),
                    }));
                    let _ = tx.send(r.map_err(|_| ()));
                });
            }
            drop(tx);
            for _ in 0..6 {
                match rx.recv_timeout(std::time::Duration::from_secs(20)) {
                    Ok(Ok(got)) => {
                        if got != want && bad.is_none() {
                            bad = Some(format!("simultaneous first builds through add_patterns (repetition {}): [{}] but sequentially [{}]", rep, got, want));
                        }
                    }
                    Ok(Err(())) => {
                        if bad.is_none() {
                            bad = Some(format!("a simultaneous first build through add_patterns panicked (repetition {})", rep));
                        }
                    }
                    Err(_) => {
                        if bad.is_none() {
                            bad = Some(format!("a simultaneous first build through add_patterns did not return within 20 s (repetition {})", rep));
                        }
                    }
                }
            }
            if bad.is_some() {
                break;
            }
        }
        match bad {
            None => out.push_str("oracle ok\nexpect oracle\n"),
            Some(b) => {
                let _ = writeln!(out, "oracle FAIL {}\nexpect oracle", b);
                // the cache may be poisoned or locked now: nothing further can be judged
                return true;
            }
        }
        st.count("simultaneous_first_builds_through_add_patterns", reps * 6);
    }
    // --- simultaneous FIRST builds of one FAILING configuration (the failure is detected late: an
    // unknown Unicode class behind a dozen ordinary patterns): every call must return an error
    {
        let reps = 40usize;
        let mut bad: Option<String> = None;
        for rep in 0..reps {
            let mut pats: Vec<scnr::Pattern> = (0..12).map(|k| scnr::Pattern::new(format!("f{}_{}_{}_{}[a-z]+", seed % 1000, round, rep, k), k)).collect();
            pats.push(scnr::Pattern::new("\\p{Greek}+".to_string(), 99));
            let modes = vec![scnr::ScannerMode::new("F", pats, Vec::<(usize, usize)>::new())];
            let barrier = Arc::new(std::sync::Barrier::new(6));
            let (tx, rx) = std::sync::mpsc::channel::<Result<bool, ()>>();
            for _ in 0..6 {
                let (modes, barrier, tx) = (modes.clone(), barrier.clone(), tx.clone());
                std::thread::spawn(move || {
                    barrier.wait();
                    let r = catch_unwind(AssertUnwindSafe(|| ScannerBuilder::new().add_scanner_modes(&modes).build().is_err()));
                    let _ = tx.send(r.map_err(|_| ()));
                });
            }
            drop(tx);
            for _ in 0..6 {
                match rx.recv_timeout(std::time::Duration::from_secs(20)) {
                    Ok(Ok(true)) => {}
                    Ok(Ok(false)) => {
                        if bad.is_none() {
                            bad = Some(format!("a configuration with an unknown Unicode class built without error (simultaneous builds, repetition {})", rep));
                        }
                    }
                    Ok(Err(())) => {
                        if bad.is_none() {
                            bad = Some(format!("a simultaneous failing build panicked instead of returning an error (repetition {})", rep));
                        }
                    }
                    Err(_) => {
                        if bad.is_none() {
                            bad = Some(format!("a simultaneous failing build did not return within 20 s (repetition {})", rep));
                        }
                    }
                }
            }
            if bad.is_some() {
                break;
            }
        }
        match bad {
            None => out.push_str("oracle ok\nexpect oracle\n"),
            Some(b) => {
                let _ = writeln!(out, "oracle FAIL {}\nexpect oracle", b);
                return true;
            }
        }
        st.count("simultaneous_failing_builds", reps * 6);
    }
    // --- builds: cache hits through add_patterns, misses, failing builds, and (one thread) cached
    // builds of a configuration read through serde with an unsorted transition table
    let unsorted_cfg: Option<(Vec<scnr::ScannerMode>, String, String)> = {
        let text = format!(
            r#"[{{"name":"U{}_{}","patterns":[{{"pattern":"x","token_type":5}},{{"pattern":"y","token_type":2}},{{"pattern":"z","token_type":9}}],"transitions":[[5,1],[2,1]]}},{{"name":"V","patterns":[{{"pattern":"[xyz]","token_type":1}}],"transitions":[]}}]"#,
            seed % 1000, round
        );
        // (expected tokens written out: `y` has no transition because the lookup stops at the first
        // larger token type, `x` switches to the second mode)
        serde_json::from_str::<Vec<scnr::ScannerMode>>(&text).ok().map(|ms| (ms, "yzxz".to_string(), "2:0:1 9:1:2 5:2:3 1:3:4".to_string()))
    };
    let simple: Vec<String> = vec![format!("h{}_{}", seed % 1000, round), "[a-c]+".to_string(), "\\s+".to_string()];
    let probe = format!("h{}_{} ab ", seed % 1000, round);
    let exp_simple = match ScannerBuilder::new().add_patterns(simple.clone()).build() {
        Ok(s) => tokens_of(&s, &probe),
        Err(_) => "builderr".to_string(),
    };
    let progress = Arc::new(AtomicUsize::new(0));
    let (tx, rx) = std::sync::mpsc::channel::<(usize, Option<String>)>();
    let total_per_thread = 1500usize;
    for t in 0..n_threads {
        let (simple, probe, exp_simple, progress, tx) = (simple.clone(), probe.clone(), exp_simple.clone(), progress.clone(), tx.clone());
        let unsorted_cfg = unsorted_cfg.clone();
        std::thread::spawn(move || {
            let mut bad = None;
            for k in 0..total_per_thread {
                if t == 7 && k % 50 == 10 {
                    if let Some((ms, uprobe, want)) = &unsorted_cfg {
                        let got = match catch_unwind(AssertUnwindSafe(|| ScannerBuilder::new().add_scanner_modes(ms).build())) {
                            Ok(Ok(s)) => tokens_of(&s, uprobe),
                            Ok(Err(_)) => "builderr".to_string(),
                            Err(_) => "panic".to_string(),
                        };
                        if got != *want && bad.is_none() {
                            bad = Some(format!("thread {} cached build #{} of a configuration with an unsorted transition table (read through serde): [{}] but uncached [{}]", t, k, got, want));
                        }
                    }
                }
                if t < 5 {
                    // hit
                    let got = match ScannerBuilder::new().add_patterns(simple.clone()).build() {
                        Ok(s) => tokens_of(&s, &probe),
                        Err(_) => "builderr".to_string(),
                    };
                    if got != exp_simple && bad.is_none() {
                        bad = Some(format!("thread {} build #{} through add_patterns: [{}] but sequentially [{}]", t, k, got, exp_simple));
                    }
                } else if k % 3 == 2 {
                    // failing build
                    let m = scnr::ScannerMode::new("F", vec![scnr::Pattern::new("(".to_string(), 0)], vec![]);
                    if ScannerBuilder::new().add_scanner_mode(m).build().is_ok() && bad.is_none() {
                        bad = Some(format!("thread {} build #{}: the pattern `(` built without error", t, k));
                    }
                } else {
                    // miss: a configuration nobody built before
                    let w = format!("m{}_{}_{}_{}", seed % 1000, round, t, k);
                    let m = scnr::ScannerMode::new("M", vec![scnr::Pattern::new(w.clone(), 7)], vec![]);
                    let got = match ScannerBuilder::new().add_scanner_mode(m).build() {
                        Ok(s) => tokens_of(&s, &w),
                        Err(_) => "builderr".to_string(),
                    };
                    let want = format!("7:0:{}", w.len());
                    if got != want && bad.is_none() {
                        bad = Some(format!("thread {} build #{} of a new configuration: [{}] but sequentially [{}]", t, k, got, want));
                    }
                }
                progress.fetch_add(1, Ordering::Relaxed);
            }
            let _ = tx.send((t, bad));
        });
    }
    drop(tx);
    let mut done = 0;
    let mut first_bad: Option<String> = None;
    let mut last = 0usize;
    let mut last_change = std::time::Instant::now();
    let mut stalled = false;
    while done < n_threads {
        match rx.recv_timeout(std::time::Duration::from_millis(500)) {
            Ok((_, b)) => {
                done += 1;
                if first_bad.is_none() {
                    first_bad = b;
                }
            }
            Err(std::sync::mpsc::RecvTimeoutError::Timeout) => {
                let p = progress.load(Ordering::Relaxed);
                if p != last {
                    last = p;
                    last_change = std::time::Instant::now();
                } else if last_change.elapsed() > std::time::Duration::from_secs(20) {
                    stalled = true;
                    break;
                }
            }
            Err(_) => break,
        }
    }
    if stalled || done < n_threads {
        let _ = writeln!(out, "oracle FAIL concurrent builds made no progress for 20 s after {} of {} builds ({} threads unfinished): deadlock in ScannerBuilder::build\nexpect oracle",
            progress.load(Ordering::Relaxed), n_threads * total_per_thread, n_threads - done);
        ok = false;
    } else if let Some(b) = first_bad {
        let _ = writeln!(out, "oracle FAIL {}\nexpect oracle", b);
    } else {
        out.push_str("oracle ok\nexpect oracle\n");
    }
    st.count("concurrent_builds", n_threads * total_per_thread);
    ok
}

/// C15: Ok/Err kind of the real build against the classification model.
fn case_c15(seed: u64, idx: usize, out: &mut String, st: &mut Stats) {
    let mut r = Rng::derive(seed, idx as u64);
    let pc = ProgCfg { max_modes: 2, max_patterns: 3, lookahead: 40, nullable: true, transitions: false, big_tids: false };
    let mut spec = cfggen::gen_program(&mut r, &pc);
    // plant at most one special string: in a pattern or in a lookahead of a random mode
    let kind = r.below(10);
    let special = match kind {
        0..=4 => Some(buildgen::planted(&mut r)),
        5..=7 => Some(buildgen::meta_string(&mut r)),
        _ => None,
    };
    let mut r3 = Rng::derive(seed ^ 0x0c15_5a5e, idx as u64);
    if r3.chance(15) {
        let m = r3.below(spec.len());
        if spec[m].patterns.len() >= 2 {
            let t = spec[m].patterns[0].tid;
            let k = 1 + r3.below(spec[m].patterns.len() - 1);
            spec[m].patterns[k].tid = t;
            if spec[m].patterns[0].lookahead.is_none() {
                spec[m].patterns[0].lookahead = Some((r3.chance(50), "a".to_string()));
            }
            let bad = if let Some(text) = &special { text.clone() } else { buildgen::planted(&mut r3) };
            if r3.chance(50) {
                spec[m].patterns[k].lookahead = Some((r3.chance(50), bad));
            } else {
                spec[m].patterns[k].lookahead = Some((r3.chance(50), "b".to_string()));
                spec[m].patterns[0].lookahead = Some((r3.chance(50), bad));
            }
            st.count("shared_token_type_with_two_lookaheads", 1);
        }
    }
    if let Some(text) = &special {
        let m = r.below(spec.len());
        let p = r.below(spec[m].patterns.len());
        if r.chance(35) {
            spec[m].patterns[p].lookahead = Some((r.chance(50), text.clone()));
        } else {
            spec[m].patterns[p].pattern = text.clone();
        }
    }
    // an unsupported construct right behind its supported twin spelling, which is registered first
    // (earlier in the pattern, in an earlier pattern or mode, or as the pattern of the lookahead)
    let mut r4 = Rng::derive(seed ^ 0x0c15_7717, idx as u64);
    if r4.chance(12) {
        const PAIRS: [(&str, &str); 12] = [
            ("\\pL", "\\p{L}"), ("\\pN", "\\p{N}"), ("\\PL", "\\P{L}"), ("\\pZ", "\\p{Z}"), ("\\p{Alphabetic}", "\\p{alphabetic}"),
            ("\\p{White_Space}", "\\p{whitespace}"), ("\\p{Lowercase}", "\\p{Lowercase=Yes}"), ("\\pP", "\\pS"),
            ("[\\pL]", "[\\p{L}]"), ("\\p{Uppercase}", "\\p{Lu}"), ("\\pC", "\\p{Cc}"), ("\\p{Math}", "\\p{math}"),
        ];
        let (good, bad) = *r4.pick(&PAIRS);
        let rep = *r4.pick(&["", "+", "*"]);
        let m = r4.below(spec.len());
        let k = r4.below(spec[m].patterns.len());
        match r4.below(4) {
            0 => spec[m].patterns[k].pattern = format!("{}{}{}", good, bad, rep),
            1 => {
                spec[m].patterns[k].pattern = format!("{}+", good);
                spec[m].patterns[k].lookahead = Some((r4.chance(50), bad.to_string()));
            }
            2 => {
                spec[0].patterns[0].pattern = format!("{}{}", good, rep);
                let lm = spec.len() - 1;
                let lk = spec[lm].patterns.len() - 1;
                if (lm, lk) != (0, 0) {
                    spec[lm].patterns[lk].pattern = format!("#{}{}", bad, rep);
                } else {
                    spec[0].patterns[0].pattern = format!("{}|x{}", good, bad);
                }
            }
            _ => {
                spec[m].patterns[k].pattern = format!("(?:{}|{}){}", good, bad, rep);
            }
        }
        st.count("unsupported_spelling_behind_its_supported_twin", 1);
    }
    // flag groups that only switch flags off (the flag list starts with the negation item)
    let mut r7 = Rng::derive(seed ^ 0x0c15_f1a6, idx as u64);
    if r7.chance(5) {
        let f = *r7.pick(&["(?-i:a)", "(?-s:.)", "(?-u:b)", "(?-is:a)", "(?-m)", "(?-x:a b)", "(?-i)a"]);
        let text = match r7.below(3) {
            0 => f.to_string(),
            1 => format!("c(y|(z{})*)+w", f),
            _ => format!("x{}y", f),
        };
        let m = r7.below(spec.len());
        let k = r7.below(spec[m].patterns.len());
        if r7.chance(30) {
            spec[m].patterns[k].lookahead = Some((r7.chance(50), text));
        } else {
            spec[m].patterns[k].pattern = text;
        }
        st.count("flag_groups_that_only_negate", 1);
    }
    // deeply nested supported patterns (17 and more levels of groups, repeated alternations, classes)
    let mut r6 = Rng::derive(seed ^ 0x0c15_dee9, idx as u64);
    if r6.chance(5) {
        let depth = 17 + r6.below(24);
        let text = match r6.below(4) {
            0 => format!("{}a{}", "(".repeat(depth), ")".repeat(depth)),
            1 => {
                let mut t = String::from("x");
                for k in 0..(depth / 3) {
                    t = format!("(?:{}|{})*", (b'a' + (k % 20) as u8) as char, t);
                }
                t
            }
            2 => {
                let mut t = String::from("z");
                for k in 0..(depth / 2) {
                    t = format!("[{}{}]", (b'a' + (k % 20) as u8) as char, t);
                }
                t
            }
            _ => {
                let mut t = String::from("q");
                for k in 0..(depth / 4) {
                    t = format!("{}(\\.{})?", (b'a' + (k % 20) as u8) as char, t);
                }
                t
            }
        };
        let m = r6.below(spec.len());
        let k = r6.below(spec[m].patterns.len());
        if r6.chance(30) {
            spec[m].patterns[k].lookahead = Some((r6.chance(50), text));
        } else {
            spec[m].patterns[k].pattern = text;
        }
        st.count("deeply_nested_supported_patterns", 1);
    }
    st.cases += 1;
    // a fifth of the cases: a configuration with an attached lookahead goes through the cached
    // `build` first, then the case is its twin spelled with look-around syntax in the pattern text
    let mut r2 = Rng::derive(seed ^ 0x0c15_e0e0, idx as u64);
    if r2.chance(20) {
        let m = r2.below(spec.len());
        let p = r2.below(spec[m].patterns.len());
        if spec[m].patterns[p].lookahead.is_none() {
            spec[m].patterns[p].lookahead = Some((r2.chance(50), r2.pick(&["b", "[a-c]+", "a|b", "\\d"]).to_string()));
        }
        let valid = cfggen::to_modes(&spec);
        let _ = catch_unwind(AssertUnwindSafe(|| ScannerBuilder::new().add_scanner_modes(&valid).build()));
        let (pos, la) = spec[m].patterns[p].lookahead.take().unwrap();
        let text = format!("{}(?{}{})", spec[m].patterns[p].pattern, if pos { "=" } else { "!" }, la);
        spec[m].patterns[p].pattern = text;
        st.count("look_around_twin_of_a_cached_configuration", 1);
    }
    let modes = cfggen::to_modes(&spec);
    let built = catch_unwind(AssertUnwindSafe(|| ScannerBuilder::new().add_scanner_modes(&modes).build_uncached()));
    let built_cached = catch_unwind(AssertUnwindSafe(|| ScannerBuilder::new().add_scanner_modes(&modes).build()));
    let _ = writeln!(out, "case {}\nexpect case {}\n# {}", idx, idx, describe(&spec).replace('\n', "\\n"));
    out.push_str("bnew\n");
    for m in &spec {
        out.push_str("bmode\n");
        for p in &m.patterns {
            let _ = writeln!(out, "bpat{}", buildgen::ser_pattern(&p.pattern));
            if let Some((_, la)) = &p.lookahead {
                let _ = writeln!(out, "bla{}", buildgen::ser_pattern(la));
            }
        }
    }
    let kind_of = |b: std::thread::Result<scnr::Result<scnr::Scanner>>| match b {
        Err(_) => "panic".to_string(),
        Ok(Ok(_)) => "build ok".to_string(),
        // (the property asks for *an* error; which kind is reported is not compared)
        Ok(Err(_)) => "build err".to_string(),
    };
    // the same configuration through the cached `build`
    out.push_str("bbuild\n");
    let _ = writeln!(out, "expect {}", kind_of(built_cached));
    out.push_str("bbuild\n");
    let res = kind_of(built);
    st.count(&res.replace(' ', "_"), 1);
    st.count(match kind { 0..=4 => "planted_unsupported", 5..=7 => "meta_string", _ => "plain" }, 1);
    let _ = writeln!(out, "expect {}", res);
    if st.samples.len() < 4 {
        if let Some(t) = special {
            st.samples.push(t);
        }
    }
}

const ODD_STRINGS: [&str; 8] = ["\"", "\\\\", "\\n", "a\"b", "\u{1}", "ü€𝄞", "\\u{22}", "\\x5c"];

/// C16: Serialize/Deserialize of the real types against the JSON tree model.
fn case_c16(seed: u64, idx: usize, cache: &TableCache, out: &mut String, st: &mut Stats) {
    let mut r = Rng::derive(seed, idx as u64);
    let pc = ProgCfg { max_modes: 3, max_patterns: 4, lookahead: 40, nullable: false, transitions: true, big_tids: true };
    let mut spec = cfggen::gen_program(&mut r, &pc);
    // strings with quotes, backslashes, control and non-ASCII characters
    for m in spec.iter_mut() {
        if r.chance(40) {
            let extra: &str = *r.pick(&["\"Q\"", "back\\slash", "tab\there", "näme", "\u{7f}", ""]);
            m.name.push_str(extra);
        }
        if r.chance(30) {
            m.transitions.clear();
        }
        for p in m.patterns.iter_mut() {
            if r.chance(30) {
                let extra: &str = *r.pick(&ODD_STRINGS);
                p.pattern.push_str(extra);
            }
        }
    }
    // token types beyond 2^53 (not exactly representable as f64) and near usize::MAX; patterns whose
    // text contains `(?=` / `(?!` inside a bracketed class and ends with `)`
    let mut r2 = Rng::derive(seed ^ 0x0c16_5353, idx as u64);
    if r2.chance(25) {
        let m = r2.below(spec.len());
        let k = r2.below(spec[m].patterns.len());
        let old = spec[m].patterns[k].tid;
        let big = *r2.pick(&[(1usize << 53) + 1, (1usize << 53) + 3, usize::MAX - 1, usize::MAX - 2, (1usize << 63) + 5, (1usize << 60) + 1]);
        if !spec[m].patterns.iter().any(|p| p.tid == big) {
            spec[m].patterns[k].tid = big;
            for t in spec[m].transitions.iter_mut() {
                if t.0 == old {
                    t.0 = big;
                }
            }
            spec[m].transitions.sort();
            st.count("token_types_beyond_2^53", 1);
        }
    }
    if r2.chance(12) {
        let m = r2.below(spec.len());
        let k = r2.below(spec[m].patterns.len());
        spec[m].patterns[k].lookahead = Some((r2.chance(50), String::new()));
        st.count("lookaheads_with_an_empty_pattern", 1);
    }
    if r2.chance(10) {
        let m = r2.below(spec.len());
        spec[m].name = String::new();
        st.count("modes_with_an_empty_name", 1);
    }
    if r2.chance(20) {
        let m = r2.below(spec.len());
        let k = r2.below(spec[m].patterns.len());
        spec[m].patterns[k].pattern = r2.pick(&["(::|[(?=<>])", "(\\d+|[)(?!])", "(\\w+[(?!])", "([(?=]a)", "a([)(?=b]|c)"]).to_string();
        if r2.chance(50) {
            spec[m].patterns[k].lookahead = None;
        }
        st.count("patterns_with_look_around_characters_in_a_class", 1);
    }
    // extra cases: transition tables of 31 .. 260 entries (around the inline capacities of small
    // buffers); patterns renumbered with `Pattern::set_token_type` after their construction
    let mut r5 = Rng::derive(seed ^ 0x0c16_e7a5, idx as u64);
    let extra = idx >= EXTRA_BASE;
    if extra && idx % 2 == 0 {
        let k = *r5.pick(&[31usize, 32, 33, 34, 63, 64, 65, 66, 129, 257]) + r5.below(2);
        let m = r5.below(spec.len());
        let nm = spec.len();
        spec[m].transitions = (0..k).map(|t| (t * (1 + t % 2), r5.below(nm))).collect();
        spec[m].transitions.sort();
        spec[m].transitions.dedup_by_key(|t| t.0);
        st.count("transition_tables_with_31_to_260_entries", 1);
    }
    // transitions to mode numbers of 2^32 and more on token types no pattern produces (the
    // configuration type is `usize` everywhere)
    if extra && idx % 4 == 0 {
        let m = r5.below(spec.len());
        let free = spec[m].patterns.iter().map(|p| p.tid).chain(spec[m].transitions.iter().map(|t| t.0)).filter(|t| *t < (1usize << 40)).max().unwrap_or(0) + 3;
        spec[m].transitions.push((free, (1usize << 32) + 1 + r5.below(5)));
        spec[m].transitions.push((free + 2, usize::MAX - r5.below(3)));
        spec[m].transitions.sort();
        st.count("transitions_to_mode_numbers_of_2^32_and_more", 1);
    }
    let renumbered = extra && idx % 2 == 1;
    st.cases += 1;
    let unsorted = r2.chance(20) && !renumbered;
    if unsorted {
        for m in spec.iter_mut() {
            if m.transitions.len() >= 2 {
                m.transitions.reverse();
            }
            if !m.transitions.is_empty() && r2.chance(40) {
                let t = m.transitions[0];
                m.transitions.push((t.0, (t.1 % 3 + 1) % 3));
            }
        }
        st.count("transition_tables_unsorted_or_with_repeated_token_types", 1);
    }
    let modes = if unsorted {
        match cfggen::to_modes_json(&spec) {
            Some(m) => m,
            None => return,
        }
    } else if renumbered {
        // every pattern is created with another token type and renumbered afterwards (before or
        // after its lookahead is attached)
        st.count("patterns_renumbered_with_set_token_type", 1);
        spec.iter()
            .map(|m| {
                scnr::ScannerMode::new(
                    &m.name,
                    m.patterns.iter().map(|p| {
                        let mut pat = scnr::Pattern::new(p.pattern.clone(), p.tid.wrapping_add(1 + r5.below(9)));
                        let first = r5.chance(50);
                        if first {
                            pat.set_token_type(p.tid);
                        }
                        let mut pat = match &p.lookahead {
                            Some((pos, la)) => pat.with_lookahead(scnr::Lookahead::new(*pos, la.clone())),
                            None => pat,
                        };
                        if !first {
                            pat.set_token_type(p.tid);
                        }
                        pat
                    }),
                    m.transitions.clone(),
                )
            })
            .collect()
    } else {
        cfggen::to_modes(&spec)
    };
    let _ = writeln!(out, "case {}\nexpect case {}\n# {}", idx, idx, describe(&spec).replace('\n', "\\n"));
    // the accessors of the configuration types report what the configuration was built from
    if !unsorted {
        let mut acc_ok = modes.len() == spec.len();
        for (m, ms) in modes.iter().zip(spec.iter()) {
            acc_ok &= m.name() == ms.name;
        }
        for ms in spec.iter() {
            for ps in &ms.patterns {
                let p = scnr::Pattern::new(ps.pattern.clone(), ps.tid);
                let p = match &ps.lookahead {
                    Some((pos, la)) => p.with_lookahead(scnr::Lookahead::new(*pos, la.clone())),
                    None => p,
                };
                let s_ref: &str = p.as_ref();
                acc_ok &= p.pattern() == ps.pattern && p.terminal_id() == ps.tid && s_ref == ps.pattern
                    && p.lookahead().map(|l| (l.is_positive(), l.pattern().to_string())) == ps.lookahead.clone();
            }
        }
        if acc_ok {
            out.push_str("oracle ok\nexpect oracle\n");
        } else {
            out.push_str("oracle FAIL an accessor of ScannerMode / Pattern / Lookahead (name, pattern, terminal_id, lookahead, is_positive, as_ref) does not report the value the configuration was built from\nexpect oracle\n");
        }
    }
    if renumbered && modes != cfggen::to_modes(&spec) {
        out.push_str("oracle FAIL modes whose patterns were renumbered with set_token_type differ from the modes built with these token types directly\nexpect oracle\n");
    }
    // Serialize
    let mut cfg = String::new();
    jsonser::ser_cfg(&spec, &mut cfg);
    let _ = writeln!(out, "jser{}", cfg);
    match serde_json::to_value(&modes) {
        Ok(v) => {
            let mut t = String::new();
            jsonser::ser_value(&v, &mut t);
            let _ = writeln!(out, "expect json{}", t);
        }
        Err(_) => out.push_str("expect json error\n"),
    }
    // the text layer: the compact and the pretty text, judged by the verified parser
    if let (Ok(t1), Ok(t2)) = (serde_json::to_string(&modes), serde_json::to_string_pretty(&modes)) {
        let _ = writeln!(out, "jtext{}\nexpect jtext done", proto::cps(&t1));
        let _ = writeln!(out, "jtext{}\nexpect jtext done", proto::cps(&t2));
        st.count("json_texts_parsed_by_the_verified_parser", 2);
    }
    // Deserialize: the hand-built README-layout tree, then mutated trees
    let mut tree = jsonser::tree_of(&spec);
    for k in 0..4 {
        if k > 0 {
            let what = jsonser::mutate_tree(&mut r, &mut tree);
            st.count(&format!("mutation_{}", what), 1);
        }
        let mut t = String::new();
        jsonser::ser_value(&tree, &mut t);
        let _ = writeln!(out, "jde{}", t);
        match serde_json::from_value::<Vec<scnr::ScannerMode>>(tree.clone()) {
            Ok(ms) => {
                st.count("deserialize_ok", 1);
                let mut t2 = String::new();
                jsonser::ser_value(&serde_json::to_value(&ms).unwrap(), &mut t2);
                let _ = writeln!(out, "expect jde{}", t2);
            }
            Err(_) => {
                st.count("deserialize_err", 1);
                out.push_str("expect jde err\n");
            }
        }
        // the same tree as text, read with `from_str` (model: verified parser, then `fromJsonModes`)
        if let Ok(text) = if k % 2 == 0 { serde_json::to_string(&tree) } else { serde_json::to_string_pretty(&tree) } {
            let _ = writeln!(out, "jdetext{}", proto::cps(&text));
            match serde_json::from_str::<Vec<scnr::ScannerMode>>(&text) {
                Ok(ms) => {
                    let mut t2 = String::new();
                    jsonser::ser_value(&serde_json::to_value(&ms).unwrap(), &mut t2);
                    let _ = writeln!(out, "expect jde{}", t2);
                }
                Err(_) => out.push_str("expect jde err\n"),
            }
            st.count("json_texts_read_with_from_str", 1);
        }
    }
    // implementation-only: text round trip and behaviour of the rebuilt scanner
    let text = serde_json::to_string(&modes).unwrap();
    let back: Result<Vec<scnr::ScannerMode>, _> = serde_json::from_str(&text);
    let back_slice: Result<Vec<scnr::ScannerMode>, _> = serde_json::from_slice(serde_json::to_vec_pretty(&modes).unwrap().as_slice());
    let back_reader: Result<Vec<scnr::ScannerMode>, _> = serde_json::from_reader(std::io::Cursor::new(text.as_bytes()));
    let back_value: Result<Vec<scnr::ScannerMode>, _> = serde_json::to_value(&modes).and_then(serde_json::from_value);
    let mut verdict = String::from("oracle ok");
    match back {
        Err(e) => verdict = format!("oracle FAIL from_str(to_string(modes)) fails: {}", e),
        Ok(b) => {
            if b != modes {
                verdict = "oracle FAIL from_str(to_string(modes)) differs from modes".to_string();
            } else if !matches!(&back_slice, Ok(x) if *x == modes) {
                verdict = "oracle FAIL from_slice(to_vec_pretty(modes)) differs from modes".to_string();
            } else if !matches!(&back_reader, Ok(x) if *x == modes) {
                verdict = "oracle FAIL from_reader(to_string(modes)) differs from modes".to_string();
            } else if !matches!(&back_value, Ok(x) if *x == modes) {
                verdict = "oracle FAIL from_value(to_value(modes)) differs from modes".to_string();
            } else {
                let s1 = ScannerBuilder::new().add_scanner_modes(&modes).build_uncached();
                let s2 = ScannerBuilder::new().add_scanner_modes(&b).build_uncached();
                match (s1, s2) {
                    (Ok(s1), Ok(s2)) => {
                        let d = s1.verif_dump();
                        let tb = cache.tables(&s1, &d);
                        for _ in 0..3 {
                            let inp = cfggen::gen_input(&mut r, &d, &tb, 6);
                            if tokens_of(&s1, &inp) != tokens_of(&s2, &inp) {
                                verdict = format!("oracle FAIL the scanner rebuilt from the round-tripped configuration tokenizes {:?} differently", inp);
                            }
                        }
                    }
                    (Err(_), Err(_)) => {}
                    _ => verdict = "oracle FAIL only one of original and round-tripped configuration builds".to_string(),
                }
            }
        }
    }
    let _ = writeln!(out, "{}\nexpect oracle", verdict.replace('\n', " "));
    // matches
    let (t, a, b) = (r.below(100000), r.below(5000), r.below(5000) + 5000);
    // now and then an empty or an inverted span (legal values of the type)
    let mut rsp = Rng::derive(seed ^ 0x0c16_5ba7, idx as u64);
    let (a, b) = match rsp.below(6) {
        0 => (b, a),
        1 => (a, a),
        2 => (a + 1, a),
        _ => (a, b),
    };
    let m = scnr::Match::new(t, scnr::Span::new(a, b));
    let _ = writeln!(out, "jmatch {} {} {}", t, a, b);
    let mut tm = String::new();
    jsonser::ser_value(&serde_json::to_value(m).unwrap(), &mut tm);
    let _ = writeln!(out, "expect json{}", tm);
    let _ = writeln!(out, "jtext{}\nexpect jtext done", proto::cps(&serde_json::to_string(&m).unwrap()));
    let back = serde_json::from_str::<scnr::Match>(&serde_json::to_string(&m).unwrap());
    let _ = writeln!(out, "{}\nexpect oracle", if matches!(&back, Ok(b) if *b == m) { "oracle ok".to_string() } else { format!("oracle FAIL Match {:?} does not round-trip: {:?}", m, back).replace('\n', " ") });
    let pos = scnr::Position::new(1 + r.below(50), 1 + r.below(80));
    let mut tp = String::new();
    jsonser::ser_value(&serde_json::to_value(pos).unwrap(), &mut tp);
    let _ = writeln!(out, "jposition {} {}\nexpect json{}", pos.line, pos.column, tp);
    let _ = writeln!(out, "jtext{}\nexpect jtext done", proto::cps(&serde_json::to_string_pretty(&pos).unwrap()));
    // MatchExt through the iterator API
    if let Ok(sc) = ScannerBuilder::new().add_scanner_modes(&modes).build_uncached() {
        use scnr::MatchExtIterator;
        let d = sc.verif_dump();
        let tb = cache.tables(&sc, &d);
        let inp = cfggen::gen_input(&mut r, &d, &tb, 6);
        // (the iterator is dropped before `inp`: an iterator type with a destructor must not break the harness)
        let first_ext = {
            let mut it = sc.find_iter(&inp).with_positions();
            it.next()
        };
        if let Some(me) = first_ext {
            let mut te = String::new();
            jsonser::ser_value(&serde_json::to_value(me).unwrap(), &mut te);
            let _ = writeln!(out, "jmatchext {} {} {} {} {} {} {}\nexpect json{}", me.token_type(), me.start(), me.end(),
                me.start_position().line, me.start_position().column, me.end_position().line, me.end_position().column, te);
            let back = serde_json::from_str::<scnr::MatchExt>(&serde_json::to_string(&me).unwrap());
            let _ = writeln!(out, "{}\nexpect oracle", if matches!(&back, Ok(b) if *b == me) { "oracle ok".to_string() } else { format!("oracle FAIL MatchExt {:?} does not round-trip: {:?}", me, back).replace('\n', " ") });
            st.count("matchext_checked", 1);
        }
    }
    // arbitrary MatchExt values (not only those the scanner produces: any columns, any lines),
    // obtained by editing the numbers of a serialized value
    {
        let mut r2 = Rng::derive(seed ^ 0x0c16_a0a0, idx as u64);
        for _ in 0..3 {
            // the layout of the derived implementation: every field written out
            let start = r2.below(60);
            let l1 = 1 + r2.below(60);
            // half of them on one line (end line = start line)
            let l2 = if r2.chance(50) { l1 } else { l1 + r2.below(5) };
            let end = if r2.chance(20) { start.saturating_sub(r2.below(5)) } else { start + r2.below(30) };
            let v = serde_json::json!({
                "token_type": r2.below(60),
                "span": { "start": start, "end": end },
                "start_position": { "line": l1, "column": 1 + r2.below(60) },
                "end_position": { "line": l2, "column": 1 + r2.below(60) },
            });
            let Ok(me) = serde_json::from_value::<scnr::MatchExt>(v.clone()) else { continue };
            let mut te = String::new();
            jsonser::ser_value(&serde_json::to_value(me).unwrap(), &mut te);
            let _ = writeln!(out, "jmatchext {} {} {} {} {} {} {}\nexpect json{}", me.token_type(), me.start(), me.end(),
                me.start_position().line, me.start_position().column, me.end_position().line, me.end_position().column, te);
            let back = serde_json::from_str::<scnr::MatchExt>(&serde_json::to_string(&me).unwrap());
            let ok = matches!(&back, Ok(b) if *b == me);
            let _ = writeln!(out, "{}\nexpect oracle", if ok {
                "oracle ok".to_string()
            } else {
                format!("oracle FAIL MatchExt {:?} does not round-trip: read back as {:?}", me, back).replace('\n', " ")
            });
            st.count("arbitrary_matchext_checked", 1);
        }
    }
    if st.samples.len() < 2 {
        st.samples.push(text);
    }
}

/// C18: the generated DOT files against the dump of the same scanner; I/O faults.
fn case_c18(seed: u64, idx: usize, cache: &TableCache, out: &mut String, st: &mut Stats) {
    let mut r = Rng::derive(seed, idx as u64);
    let pc = ProgCfg { max_modes: 3, max_patterns: 4, lookahead: 40, nullable: true, transitions: true, big_tids: false };
    let mut spec = cfggen::gen_program(&mut r, &pc);
    let mut r3 = Rng::derive(seed ^ 0x18d0_7d07, idx as u64);
    let abs = format!("/svabs{}", std::process::id());
    let prefix: &str = *r3.pick(&["pre", "pre", "v0.9", "x.y.z", "pre fix", abs.as_str()]);
    // two patterns of a mode sharing a token type (one lookahead per token type: one cluster)
    if r3.chance(25) {
        let m = r3.below(spec.len());
        if spec[m].patterns.len() >= 2 {
            let t = spec[m].patterns[0].tid;
            let k = 1 + r3.below(spec[m].patterns.len() - 1);
            spec[m].patterns[k].tid = t;
            if spec[m].patterns[0].lookahead.is_none() {
                spec[m].patterns[0].lookahead = Some((r3.chance(50), "a".to_string()));
            }
            spec[m].transitions.retain(|x| x.0 != t);
        }
    }
    // names and patterns needing escapes in labels
    for (i, m) in spec.iter_mut().enumerate() {
        if r.chance(40) {
            m.name = format!("{}{}", *r.pick(&["IN\"IT", "back\\slash", "sp ace", "ü€", "a{b}", "semi;colon", "q\"\"q"]), i);
        }
        // (a separate stream, so that the cases above keep their meaning) names with dots
        if r3.chance(25) {
            m.name = format!("{}{}", *r3.pick(&["STR.DQ", "a.b.c", ".hidden", "end."]), i);
        }
        for p in m.patterns.iter_mut() {
            if r.chance(25) {
                let extra: &str = *r.pick(&["\\u{22}", "\\\\", "\"", "\\]", ";", "\\{", "->"]);
                p.pattern.push_str(extra);
            }
        }
    }
    st.cases += 1;
    let modes = cfggen::to_modes(&spec);
    let built = catch_unwind(AssertUnwindSafe(|| ScannerBuilder::new().add_scanner_modes(&modes).build_uncached()));
    let scanner = match built {
        Ok(Ok(s)) => s,
        Ok(Err(_)) => {
            st.build_err += 1;
            return;
        }
        Err(_) => {
            st.build_panic += 1;
            return;
        }
    };
    let dump = scanner.verif_dump();
    let tables = cache.tables(&scanner, &dump);
    let _ = writeln!(out, "case {}\nexpect case {}\n# {}", idx, idx, describe(&spec).replace('\n', "\\n"));
    proto::write_scanner(out, &dump, &tables);
    let dir = std::env::temp_dir().join(format!("scnr_verif_c18_{}_{}_{}", std::process::id(), seed, idx));
    let _ = std::fs::remove_dir_all(&dir);
    std::fs::create_dir_all(&dir).unwrap();
    // half of the time the files exist already, with other (longer) content: the files describe the
    // scanner they were generated from, nothing of an earlier content may remain
    let mut r2 = Rng::derive(seed ^ 0x18c1_8c18, idx as u64);
    if r2.chance(50) {
        for m in spec.iter() {
            let mut junk = String::from("digraph old {\n");
            for i in 0..(2000 + r2.below(3000)) {
                let _ = writeln!(junk, "  old{} -> old{} [label=\"9{}\"];", i, i + 1, i);
            }
            junk.push_str("}\n");
            let _ = std::fs::write(dir.join(format!("{}_{}.dot", prefix.trim_start_matches('/'), m.name)), junk);
        }
        st.count("files_existed_before", 1);
    }
    // a third of the scanners are logged first (`log_compiled_automata_as_dot`, a logger at level
    // Debug is installed for this suite): the files must not depend on it
    if r2.chance(35) {
        match catch_unwind(AssertUnwindSafe(|| scanner.log_compiled_automata_as_dot())) {
            Ok(Ok(())) => st.count("scanners_logged_before_the_export", 1),
            Ok(Err(e)) => {
                let _ = writeln!(out, "oracle FAIL log_compiled_automata_as_dot failed: {}\nexpect oracle", e.to_string().replace('\n', " "));
            }
            Err(_) => out.push_str("oracle FAIL log_compiled_automata_as_dot panicked\nexpect oracle\n"),
        }
    }
    let res = catch_unwind(AssertUnwindSafe(|| scanner.generate_compiled_automata_as_dot(prefix, &dir)));
    match res {
        Err(_) => out.push_str("oracle FAIL generate_compiled_automata_as_dot panicked on a writable folder\nexpect oracle\n"),
        Ok(Err(e)) => {
            let _ = writeln!(out, "oracle FAIL generate_compiled_automata_as_dot failed on a writable folder: {}\nexpect oracle", e.to_string().replace('\n', " "));
        }
        Ok(Ok(())) => {
            // one file per mode, named from the prefix and the mode name
            let mut names: Vec<String> = std::fs::read_dir(&dir).unwrap().flatten().map(|e| e.file_name().to_string_lossy().to_string()).collect();
            names.sort();
            // (a leading separator of the prefix is swallowed by the one after the folder)
            let mut want: Vec<String> = spec.iter().map(|m| format!("{}_{}.dot", prefix.trim_start_matches('/'), m.name)).collect();
            want.sort();
            want.dedup();
            if names != want {
                let _ = writeln!(out, "oracle FAIL files written {:?}, expected {:?}\nexpect oracle", names, want);
            } else {
                out.push_str("oracle ok\nexpect oracle\n");
            }
            for (m, mode) in spec.iter().enumerate() {
                // (two modes with one name overwrite each other: only the last one is on disk)
                if spec.iter().skip(m + 1).any(|o| o.name == mode.name) {
                    continue;
                }
                let path = dir.join(format!("{}_{}.dot", prefix.trim_start_matches('/'), mode.name));
                let text = std::fs::read_to_string(&path).unwrap_or_default();
                // the text itself, judged by the verified Lean parser
                let _ = writeln!(out, "dottext {}{}", m, proto::cps(&text));
                out.push_str("expect dottext done\n");
                st.count("dot_files_parsed_by_the_verified_parser", 1);
                // cross-check by the harness' own parser (the verdict is the verified parser's: when this
                // one cannot read the file, nothing is compared here)
                match dotparse::parse(&text) {
                    Err(_) => st.count("dot_files_the_cross_check_parser_could_not_read", 1),
                    Ok(g) => {
                        let mut line = String::from("dot");
                        match dotparse::decode(&g, "") {
                            Err(e) => line = format!("dot undecodable: {}", e),
                            Ok(main) => {
                                line.push_str(&main);
                                // clusters sorted by token type (they come from a hash map)
                                let mut cl: Vec<(usize, String)> = Vec::new();
                                let mut bad = None;
                                for c in &g.clusters {
                                    let label = c.label.clone().unwrap_or_default();
                                    // "LA for T<tid>(Pos|Neg)"
                                    let parsed = label.strip_prefix("LA for T").and_then(|s| {
                                        let (t, pol) = s.split_once('(')?;
                                        let pos = match pol { "Pos)" => 1, "Neg)" => 0, _ => return None };
                                        Some((t.parse::<usize>().ok()?, pos))
                                    });
                                    match parsed {
                                        None => bad = Some(format!("cluster label {:?}", label)),
                                        Some((t, pos)) => match dotparse::decode(c, &format!("{}_", t)) {
                                            Ok(gs) => cl.push((t, format!(" {} {}{}", t, pos, gs))),
                                            Err(e) => bad = Some(e),
                                        },
                                    }
                                }
                                cl.sort();
                                let _ = write!(line, " {}", cl.len());
                                for (_, c) in cl {
                                    line.push_str(&c);
                                }
                                if let Some(b) = bad {
                                    line = format!("dot undecodable: {}", b);
                                }
                            }
                        }
                        if line.starts_with("dot undecodable") {
                            st.count("dot_files_the_cross_check_parser_could_not_read", 1);
                        } else {
                            let _ = writeln!(out, "dot {}\nexpect {}", m, line);
                        }
                        st.count("dot_files_parsed", 1);
                        st.count("dot_clusters", g.clusters.len());
                    }
                }
            }
        }
    }
    let _ = std::fs::remove_dir_all(&dir);
    // faults: a missing folder and a "folder" that is a file must yield Err, never a panic
    let missing = dir.join("does/not/exist");
    let file_as_dir = std::env::temp_dir().join(format!("scnr_verif_c18_file_{}_{}_{}", std::process::id(), seed, idx));
    let _ = std::fs::write(&file_as_dir, "x");
    for (what, p) in [("missing folder", missing), ("path below a regular file", file_as_dir.join("sub"))] {
        let res = catch_unwind(AssertUnwindSafe(|| scanner.generate_compiled_automata_as_dot(prefix, &p)));
        match res {
            Err(_) => {
                let _ = writeln!(out, "oracle FAIL generate_compiled_automata_as_dot panicked for a {}\nexpect oracle", what);
            }
            Ok(Ok(())) => {
                let _ = writeln!(out, "oracle FAIL generate_compiled_automata_as_dot reported success for a {}\nexpect oracle", what);
            }
            Ok(Err(_)) => out.push_str("oracle ok\nexpect oracle\n"),
        }
    }
    let _ = std::fs::remove_file(&file_as_dir);
    // nothing may have been written outside the target folder (absolute prefix)
    if prefix.starts_with('/') {
        let mut stray: Vec<String> = Vec::new();
        if let Ok(rd) = std::fs::read_dir("/") {
            for e in rd.flatten() {
                let n = e.file_name().to_string_lossy().to_string();
                if n.starts_with(prefix.trim_start_matches('/')) {
                    let _ = std::fs::remove_file(e.path());
                    stray.push(n);
                }
            }
        }
        if stray.is_empty() {
            out.push_str("oracle ok\nexpect oracle\n");
        } else {
            let _ = writeln!(out, "oracle FAIL files were written outside the target folder: /{}\nexpect oracle", stray.join(", /"));
        }
    }
    if st.samples.len() < 2 {
        st.samples.push(describe(&spec));
    }
}

/// Expected tokens of the pattern list [`a{n}b` (type 0)] on `a^k b`: closed form of C17.
fn rep_expected(n: usize, k: usize) -> Vec<(usize, usize, usize)> {
    if k >= n { vec![(0, k - n, k + 1)] } else { vec![] }
}

/// C17: one configuration of the family; `full` = with reference patterns and the equivalence check.
fn c17_case(idx: usize, spec: &[ModeSpec], inputs: &[(String, Option<Vec<(usize, usize, usize)>>)], full: bool,
            model_tokens: bool, big_pairs: usize, cache: &TableCache, rcache: &RefCache, out: &mut String, st: &mut Stats) {
    st.cases += 1;
    let modes = cfggen::to_modes(spec);
    scnr::verif::set_minimizer_log(true);
    let _ = scnr::verif::take_minimizer_log();
    let t0 = std::time::Instant::now();
    let built = catch_unwind(AssertUnwindSafe(|| ScannerBuilder::new().add_scanner_modes(&modes).build_uncached()));
    let log = scnr::verif::take_minimizer_log();
    scnr::verif::set_minimizer_log(false);
    st.count("build_ms_total", t0.elapsed().as_millis() as usize);
    let _ = writeln!(out, "case {}\nexpect case {}\n# {}", idx, idx, describe(spec).chars().take(300).collect::<String>().replace('\n', "\\n"));
    let scanner = match built {
        Err(_) => {
            out.push_str("oracle FAIL building panicked\nexpect oracle\n");
            return;
        }
        Ok(Err(e)) => {
            // rejected with an error: allowed by the property
            st.count("rejected_with_error", 1);
            let _ = writeln!(out, "# rejected: {}", e.to_string().chars().take(100).collect::<String>().replace('\n', " "));
            out.push_str("oracle ok\nexpect oracle\n");
            return;
        }
        Ok(Ok(s)) => s,
    };
    let dump = scanner.verif_dump();
    let tables = cache.tables(&scanner, &dump);
    st.count("dfa_states", dump.modes[0].dfa.states.len());
    st.count("max_states_before_minimization", log.iter().map(|p| p.0.states.len()).max().unwrap_or(0));
    proto::write_scanner(out, &dump, &tables);
    out.push_str("wf\nexpect wf 1\n");
    if full {
        if write_patterns(out, spec, rcache) {
            out.push_str("equiv 0\nexpect equiv ok\n");
        }
    }
    // the minimizer pairs of this build (C03's verified check)
    for (a, b) in &log {
        if a.states.len() > big_pairs {
            continue;
        }
        out.push_str("dfa x 0\n");
        write_dfa_lines(out, a);
        out.push_str("dfa x 1\n");
        write_dfa_lines(out, b);
        let _ = writeln!(out, "equivdfa {}", a.states.len() + 10);
        out.push_str("expect equivdfa ok\n");
        st.count("minimizer_pairs", 1);
    }
    out.push_str("finder model\n");
    for (input, expected) in inputs {
        st.inputs += 1;
        let real: Vec<(usize, usize, usize)> = match catch_unwind(AssertUnwindSafe(|| {
            scanner.find_iter(input).take(input.len() + 2).map(|m| (m.token_type(), m.start(), m.end())).collect::<Vec<_>>()
        })) {
            Ok(v) => v,
            Err(_) => {
                out.push_str("oracle FAIL scanning panicked\nexpect oracle\n");
                continue;
            }
        };
        if let Some(exp) = expected {
            if &real == exp {
                out.push_str("oracle ok\nexpect oracle\n");
            } else {
                let _ = writeln!(out, "oracle FAIL input of {} bytes: {} tokens, first {:?}; the longest-match rule prescribes {:?}\nexpect oracle",
                    input.len(), real.len(), real.first(), exp);
            }
        }
        if model_tokens {
            let _ = writeln!(out, "input{}", proto::cps(input));
            out.push_str("new 0\n");
            for t in &real {
                let _ = writeln!(out, "next 0\nexpect tok {} {} {}", t.0, t.1, t.2);
            }
            out.push_str("next 0\nexpect none\n");
        }
    }
    if st.samples.len() < 3 {
        st.samples.push(describe(spec).chars().take(200).collect());
    }
}

fn rep_spec(n: usize) -> Vec<ModeSpec> {
    vec![ModeSpec { name: "R".into(), patterns: vec![PatSpec { pattern: format!("a{{{}}}b", n), tid: 0, lookahead: None }], transitions: vec![] }]
}

fn rep_inputs(n: usize, lens: &[usize]) -> Vec<(String, Option<Vec<(usize, usize, usize)>>)> {
    lens.iter().map(|k| (format!("{}b", "a".repeat(*k)), Some(rep_expected(n, *k)))).collect()
}

fn keyword_spec(count: usize, len: usize, seed: u64) -> (Vec<ModeSpec>, Vec<String>) {
    let mut r = Rng::new(seed);
    let mut words = std::collections::BTreeSet::new();
    while words.len() < count {
        let w: String = (0..len).map(|_| (b'a' + r.below(26) as u8) as char).collect();
        words.insert(w);
    }
    let words: Vec<String> = words.into_iter().collect();
    let mut patterns: Vec<PatSpec> = words.iter().enumerate().map(|(i, w)| PatSpec { pattern: w.clone(), tid: i, lookahead: None }).collect();
    patterns.push(PatSpec { pattern: "[a-z]+".into(), tid: count, lookahead: None });
    patterns.push(PatSpec { pattern: " +".into(), tid: count + 1, lookahead: None });
    (vec![ModeSpec { name: "K".into(), patterns, transitions: vec![] }], words)
}

fn keyword_inputs(words: &[String], count: usize, seed: u64) -> Vec<(String, Option<Vec<(usize, usize, usize)>>)> {
    let mut r = Rng::new(seed ^ 77);
    let mut input = String::new();
    let mut exp = Vec::new();
    for i in 0..30 {
        let (text, tid) = match r.below(3) {
            0 => {
                let k = r.below(words.len());
                (words[k].clone(), k)
            }
            1 => {
                // a keyword with one more letter is an identifier
                let k = r.below(words.len());
                (format!("{}x", words[k]), count)
            }
            _ => ("zz".to_string(), count),
        };
        if i > 0 {
            exp.push((count + 1, input.len(), input.len() + 1));
            input.push(' ');
        }
        exp.push((tid, input.len(), input.len() + text.len()));
        input.push_str(&text);
    }
    vec![(input, Some(exp))]
}

/// C17 driver: deterministic list of configurations (mid-size always; the > 2^16 builds with --n >= 1000).
fn c17(seed: u64, n: usize, cache: &TableCache, rcache: &RefCache, out: &mut String, st: &mut Stats) {
    // the id widths the code was compiled with
    for (name, bits) in scnr::verif::ID_BITS.iter() {
        st.count(&format!("bits_{}", name), *bits);
    }
    let sb = scnr::verif::ID_BITS.iter().find(|x| x.0 == "StateIDBase").unwrap().1;
    let gb = scnr::verif::ID_BITS.iter().find(|x| x.0 == "StateGroupIDBase").unwrap().1;
    let _ = writeln!(out, "case 0\nexpect case 0");
    let _ = writeln!(out, "idbits {} {}\nexpect idbits ok", sb, gb);
    let mut idx = 1;
    for rn in [300usize, 700, 1200] {
        c17_case(idx, &rep_spec(rn), &rep_inputs(rn, &[rn, rn - 1, rn + 1, rn.saturating_sub(256), 0]), true, true, 5000, cache, rcache, out, st);
        idx += 1;
    }
    let (ks, words) = keyword_spec(150, 5, seed);
    c17_case(idx, &ks, &keyword_inputs(&words, 150, seed), true, true, 5000, cache, rcache, out, st);
    idx += 1;
    let narrow = gb < 32 || sb < 32;
    if n >= 1000 || narrow {
        // crossing the 2^16 state boundary: a long bounded repetition and a very large keyword list
        let big = 66000usize;
        c17_case(idx, &rep_spec(big), &rep_inputs(big, &[big, big - 1, big - 65536, big + 1]), false, false, 70000, cache, rcache, out, st);
        idx += 1;
        let (ks, words) = keyword_spec(11500, 6, seed);
        // (the minimizer pair of this automaton is not explored: with 27 alphabet representatives
        // it takes hours; the family is judged by the closed-form token streams and by the
        // exhaustive probe of the many-token-types case below)
        c17_case(idx, &ks, &keyword_inputs(&words, 11500, seed), false, false, 0, cache, rcache, out, st);
        idx += 1;
        st.count("large_builds", 2);
        if n >= 1000 {
            // more than 2^16 token types (one partition group per token type in the minimizer)
            c17_many_token_types(idx, 65_600, seed, out, st);
            st.count("large_builds", 1);
        }
    }
}

/// C17: `count` three-letter keywords over [0-9A-Za-z], every one with its own token type, no other
/// pattern. The longest-match rule prescribes for a three-letter input: the keyword's token if it
/// is a keyword, nothing otherwise. All 62^3 inputs are scanned.
fn c17_many_token_types(idx: usize, count: usize, seed: u64, out: &mut String, st: &mut Stats) {
    st.cases += 1;
    let alphabet: Vec<char> = ('0'..='9').chain('A'..='Z').chain('a'..='z').collect();
    let mut all: Vec<String> = Vec::with_capacity(62 * 62 * 62);
    for a in &alphabet {
        for b in &alphabet {
            for c in &alphabet {
                all.push([*a, *b, *c].iter().collect());
            }
        }
    }
    let mut order: Vec<usize> = (0..all.len()).collect();
    let mut r = Rng::new(seed ^ 0xc17c17);
    r.shuffle(&mut order);
    // the first two keywords: "001" and (as keyword 65536) "aa0", as in the known aliasing pattern;
    // the others in pseudo-random order
    let pos = |w: &str| all.iter().position(|x| x == w).unwrap();
    let (p0, p1) = (pos("001"), pos("aa0"));
    order.retain(|i| *i != p0 && *i != p1);
    order.insert(0, p0);
    let at = 65_536.min(order.len());
    order.insert(at, p1);
    order.truncate(count);
    let mut tid_of: Vec<Option<usize>> = vec![None; all.len()];
    for (t, i) in order.iter().enumerate() {
        tid_of[*i] = Some(t);
    }
    let mode = scnr::ScannerMode::new("K3", order.iter().enumerate().map(|(t, i)| scnr::Pattern::new(all[*i].clone(), t)), vec![]);
    let t0 = std::time::Instant::now();
    let built = catch_unwind(AssertUnwindSafe(|| ScannerBuilder::new().add_scanner_mode(mode).build_uncached()));
    st.count("build_ms_total", t0.elapsed().as_millis() as usize);
    let _ = writeln!(out, "case {}\nexpect case {}\n# {} three-letter keywords, one token type each", idx, idx, count);
    let scanner = match built {
        Err(_) => {
            out.push_str("oracle FAIL building panicked\nexpect oracle\n");
            return;
        }
        Ok(Err(e)) => {
            st.count("rejected_with_error", 1);
            let _ = writeln!(out, "# rejected: {}", e.to_string().chars().take(100).collect::<String>().replace('\n', " "));
            out.push_str("oracle ok\nexpect oracle\n");
            return;
        }
        Ok(Ok(s)) => s,
    };
    st.count("dfa_states", scanner.verif_dump().modes[0].dfa.states.len());
    // one input: all 62^3 words separated by blanks (no window across a blank can match)
    let mut input = String::with_capacity(all.len() * 4);
    let mut exp: Vec<(usize, usize, usize)> = Vec::new();
    for (i, w) in all.iter().enumerate() {
        if let Some(t) = tid_of[i] {
            exp.push((t, input.len(), input.len() + 3));
        }
        input.push_str(w);
        input.push(' ');
    }
    st.inputs += all.len();
    let real: Vec<(usize, usize, usize)> = scanner.find_iter(&input).take(all.len() + 2).map(|m| (m.token_type(), m.start(), m.end())).collect();
    let mut bad: Option<String> = None;
    if real != exp {
        let k = real.iter().zip(exp.iter()).position(|(a, b)| a != b).unwrap_or(real.len().min(exp.len()));
        let at = real.get(k).map(|t| t.1).unwrap_or(0).min(exp.get(k).map(|t| t.1).unwrap_or(usize::MAX));
        let word: String = input[at..(at + 3).min(input.len())].to_string();
        bad = Some(format!("word {:?} at byte {}: token {:?}; the longest-match rule prescribes {:?} ({} tokens, {} expected)",
            word, at, real.get(k).filter(|t| t.1 == at), exp.get(k).filter(|t| t.1 == at), real.len(), exp.len()));
    }
    match bad {
        None => out.push_str("oracle ok\nexpect oracle\n"),
        Some(m) => {
            let _ = writeln!(out, "oracle FAIL {}\nexpect oracle", m);
        }
    }
}

/// A logger that discards everything (installed for C14 at level Debug: the arguments of the
/// crate's `debug!`/`trace!` calls are then evaluated).
struct Discard;
impl log::Log for Discard {
    fn enabled(&self, _: &log::Metadata) -> bool {
        true
    }
    fn log(&self, record: &log::Record) {
        // format the message (as a real backend would) and drop it
        let _ = format!("{}", record.args());
    }
    fn flush(&self) {}
}

/// First index of the extra cases of a suite (see `main`).
const EXTRA_BASE: usize = 2_000_000;

/// Number of extra cases of a suite for `n` ordinary ones.
fn extra_cases(suite: &str, n: usize) -> usize {
    match suite {
        "C01" => n / 8,
        "C02" => n / 6,
        "C16" => n / 10,
        "C04" | "C05" => 3,
        "C12" => 1,
        _ => 0,
    }
}

fn main() {
    // silence panic messages of caught panics
    if std::env::var("VERIF_PANIC_MSG").is_err() {
        std::panic::set_hook(Box::new(|_| {}));
    }
    let args = parse_args();
    let cache = Arc::new(TableCache::default());
    let rcache = Arc::new(RefCache::default());
    let threads = args.threads.max(1);
    let n = args.n;
    let mut chunks: Vec<(String, Stats)> = Vec::new();
    if args.suite == "C17" || args.suite == "C17M" {
        let mut o = String::new();
        let mut stt = Stats::default();
        if args.suite == "C17M" {
            // (development aid) only the many-token-types family, with `n` keywords
            c17_many_token_types(1, n, args.seed, &mut o, &mut stt);
        } else {
            c17(args.seed, n, &cache, &rcache, &mut o, &mut stt);
        }
        std::fs::create_dir_all(&args.out).unwrap();
        std::fs::write(format!("{}/ops.in", args.out), &o).unwrap();
        let j = serde_json::json!({
            "suite": args.suite, "seed": args.seed, "cases": stt.cases, "build_err": 0, "build_panic": 0,
            "inputs": stt.inputs, "ops": stt.ops, "counters": stt.counters, "samples": stt.samples,
            "class_tables_enumerated": *cache.enumerated.lock().unwrap(),
        });
        std::fs::write(format!("{}/stats.json", args.out), serde_json::to_string_pretty(&j).unwrap()).unwrap();
        return;
    }
    let c13_first = args.suite == "C13" && args.only.as_ref().map(|o| o.contains(&0)).unwrap_or(n > 0);
    if c13_first {
        // the cache-growth case runs alone, before any other build of the process
        let mut o = String::new();
        let mut stt = Stats::default();
        case_c13(args.seed, 0, &cache, &mut o, &mut stt);
        chunks.push((o, stt));
    }
    if args.suite == "C18" {
        static DISCARD18: Discard = Discard;
        let _ = log::set_logger(&DISCARD18);
        log::set_max_level(log::LevelFilter::Debug);
    }
    if args.suite == "C14" {
        static DISCARD: Discard = Discard;
        let _ = log::set_logger(&DISCARD);
        log::set_max_level(log::LevelFilter::Debug);
        let mut o = String::new();
        let mut stt = Stats::default();
        let mut all_done = true;
        for round in 0..n {
            if round < 2 && !c14_hammer(args.seed, round, &mut o, &mut stt) {
                all_done = false;
                break;
            }
            if !c14_round(args.seed, round, &cache, &mut o, &mut stt) {
                all_done = false;
                break;
            }
        }
        stt.count("threads_per_round", 8);
        stt.samples.push("8 threads: build(slow fresh cfg) simultaneously, hits, failing builds, private cfgs, scans on private and one shared scanner".into());
        std::fs::create_dir_all(&args.out).unwrap();
        std::fs::write(format!("{}/ops.in", args.out), &o).unwrap();
        let j = serde_json::json!({
            "suite": args.suite, "seed": args.seed, "cases": stt.cases, "build_err": 0, "build_panic": 0,
            "inputs": 0, "ops": stt.ops, "counters": stt.counters, "samples": stt.samples,
            "class_tables_enumerated": *cache.enumerated.lock().unwrap(),
        });
        std::fs::write(format!("{}/stats.json", args.out), serde_json::to_string_pretty(&j).unwrap()).unwrap();
        // stuck threads cannot be joined
        std::process::exit(if all_done { 0 } else { 0 });
    }
    std::thread::scope(|s| {
        let mut handles = Vec::new();
        for t in 0..threads {
            let cache = cache.clone();
            let rcache = rcache.clone();
            let suite = args.suite.clone();
            let seed = args.seed;
            let only = args.only.clone();
            handles.push(s.spawn(move || {
                let mut out = String::new();
                let mut st = Stats::default();
                // ordinary cases 0..n, then the extra cases of the suite (indices from EXTRA_BASE on:
                // case kinds added later live there, so that the ordinary indices keep their meaning)
                let indices: Vec<usize> = match &only {
                    Some(o) => o.clone(),
                    None => (0..n).chain((0..extra_cases(&suite, n)).map(|j| EXTRA_BASE + j)).collect(),
                };
                let mut pos = t;
                while pos < indices.len() {
                    let idx = indices[pos];
                    pos += threads;
                    if suite == "C13" && idx == 0 {
                        continue;
                    }
                    match suite.as_str() {
                        "C04" | "C05" if idx % 3 == 2 => case_iter(seed, idx, &suite, &cache, &mut out, &mut st),
                        "C01" | "C04" | "C05" | "find" => case_find(seed, idx, &suite, &cache, &rcache, &mut out, &mut st),
                        "C02" => case_c02(seed, idx, &cache, &rcache, &mut out, &mut st),
                        "C03" => case_c03(seed, idx, &cache, &mut out, &mut st),
                        "C08" => case_c08(seed, idx, &rcache, &mut out, &mut st),
                        "C12" => case_c12(seed, idx, &cache, &mut out, &mut st),
                        "C13" => case_c13(seed, idx, &cache, &mut out, &mut st),
                        "C15" => case_c15(seed, idx, &mut out, &mut st),
                        "C16" => case_c16(seed, idx, &cache, &mut out, &mut st),
                        "C18" => case_c18(seed, idx, &cache, &mut out, &mut st),
                        _ => case_iter(seed, idx, &suite, &cache, &mut out, &mut st),
                    }
                }
                (out, st)
            }));
        }
        for h in handles {
            chunks.push(h.join().unwrap());
        }
    });
    let mut all = String::new();
    let mut stats = Stats::default();
    if (args.suite == "C02" || args.suite == "C03") && args.only.is_none() {
        // the repository corpora always come first
        let mut o = String::new();
        let mut s = Stats::default();
        for (i, (name, spec)) in load_corpora().into_iter().enumerate() {
            let _ = writeln!(o, "# corpus {}", name);
            if args.suite == "C02" {
                equiv_case(1_000_000 + i, &spec, &cache, &rcache, &mut o, &mut s);
            } else {
                c03_case(1_000_000 + i, &spec, &cache, &mut o, &mut s);
            }
            s.count("corpus_configurations", 1);
        }
        s.samples.clear();
        all.push_str(&o);
        stats.merge(s);
    }
    if args.suite == "C08" && args.only.is_none() {
        let mut o = String::new();
        let mut s = Stats::default();
        c08_fixed(&rcache, &mut o, &mut s);
        s.samples.clear();
        all.push_str(&o);
        stats.merge(s);
    }
    for (o, s) in chunks {
        all.push_str(&o);
        stats.merge(s);
    }
    {
        let panics = proto::CLASS_PANICS.lock().unwrap();
        if let Some((id, cp)) = panics.first() {
            let _ = writeln!(all, "case 9999999\nexpect case 9999999\noracle FAIL the match function of a character class (id {} in its scanner) panicked on code point U+{:04X} ({} panics in this run)\nexpect oracle", id, cp, panics.len());
        }
    }
    std::fs::create_dir_all(&args.out).unwrap();
    std::fs::write(format!("{}/ops.in", args.out), all).unwrap();
    let j = serde_json::json!({
        "suite": args.suite, "seed": args.seed, "cases": stats.cases, "build_err": stats.build_err,
        "build_panic": stats.build_panic, "inputs": stats.inputs, "ops": stats.ops,
        "counters": stats.counters, "samples": stats.samples,
        "class_tables_enumerated": *cache.enumerated.lock().unwrap(),
    });
    std::fs::write(format!("{}/stats.json", args.out), serde_json::to_string_pretty(&j).unwrap()).unwrap();
}
