//! C15: serialisation of full regex-syntax ASTs (incl. unsupported nodes) and pattern generators.
use crate::regen::{self, GenCfg};
use crate::rng::Rng;
use regex_syntax::ast::{
    parse::Parser, Ast, ClassSet, ClassSetItem, ClassUnicode, ClassUnicodeKind, FlagsItemKind, GroupKind,
};
use std::fmt::Write;

/// The Unicode class names the crate documents as supported (the specification of "known").
pub const UNICODE_NAMES: [&str; 55] = [
    "Alphabetic", "ASCII_Hex_Digit", "Bidi_Control", "Case_Ignorable", "Cased", "Composition_Exclusion", "Dash",
    "Default_Ignorable_Code_Point", "Deprecated", "Diacritic", "Emoji_Component", "Emoji_Modifier_Base",
    "Emoji_Modifier", "Emoji_Presentation", "Emoji", "Extended_Pictographic", "Extender",
    "Full_Composition_Exclusion", "Grapheme_Extend", "Hex_Digit", "Hyphen", "ID_Continue", "ID_Start",
    "Ideographic", "IDS_Binary_Operator", "IDS_Trinary_Operator", "Join_Control", "Logical_Order_Exception",
    "Lowercase", "Math", "Noncharacter_Code_Point", "Other_Alphabetic", "Other_Default_Ignorable_Code_Point",
    "Other_Grapheme_Extend", "Other_ID_Continue", "Other_ID_Start", "Other_Lowercase", "Other_Math",
    "Other_Uppercase", "Pattern_Syntax", "Pattern_White_Space", "Prepended_Concatenation_Mark", "Quotation_Mark",
    "Radical", "Regional_Indicator", "Sentence_Terminal", "Soft_Dotted", "Terminal_Punctuation",
    "Unified_Ideograph", "Uppercase", "Variation_Selector", "White_Space", "XID_Continue", "XID_Start",
    "Terminal_Punctuation",
];

fn unicode_supported(u: &ClassUnicode) -> bool {
    match &u.kind {
        ClassUnicodeKind::OneLetter(c) => "LNZPC".contains(*c),
        ClassUnicodeKind::Named(n) => UNICODE_NAMES.contains(&n.as_str()),
        ClassUnicodeKind::NamedValue { .. } => false,
    }
}

fn item_supported(i: &ClassSetItem) -> bool {
    match i {
        ClassSetItem::Unicode(u) => unicode_supported(u),
        ClassSetItem::Bracketed(b) => set_supported(&b.kind),
        ClassSetItem::Union(u) => u.items.iter().all(item_supported),
        _ => true,
    }
}

fn set_supported(s: &ClassSet) -> bool {
    match s {
        ClassSet::Item(i) => item_supported(i),
        ClassSet::BinaryOp(b) => set_supported(&b.lhs) && set_supported(&b.rhs),
    }
}

/// Prefix notation of the model's `FAst`.
pub fn ser(ast: &Ast, out: &mut String) {
    match ast {
        Ast::Empty(_) => out.push_str(" E"),
        Ast::Flags(_) => out.push_str(" F"),
        Ast::Literal(_) => out.push_str(" L"),
        Ast::Dot(_) => out.push_str(" D"),
        Ast::Assertion(_) => out.push_str(" S"),
        Ast::ClassUnicode(u) => {
            let _ = write!(out, " K {}", unicode_supported(u) as u8);
        }
        Ast::ClassPerl(_) => out.push_str(" K 1"),
        Ast::ClassBracketed(b) => {
            let _ = write!(out, " K {}", set_supported(&b.kind) as u8);
        }
        Ast::Repetition(r) => {
            let _ = write!(out, " R {}", r.greedy as u8);
            ser(&r.ast, out);
        }
        Ast::Group(g) => {
            let flagged = match &g.kind {
                GroupKind::NonCapturing(f) => f.items.iter().any(|i| matches!(i.kind, FlagsItemKind::Flag(_))),
                _ => false,
            };
            let _ = write!(out, " G {}", flagged as u8);
            ser(&g.ast, out);
        }
        Ast::Alternation(a) => {
            let _ = write!(out, " A {}", a.asts.len());
            a.asts.iter().for_each(|x| ser(x, out));
        }
        Ast::Concat(c) => {
            let _ = write!(out, " C {}", c.asts.len());
            c.asts.iter().for_each(|x| ser(x, out));
        }
    }
}

/// `!` for a syntax error, else the serialised AST.
pub fn ser_pattern(p: &str) -> String {
    match Parser::new().parse(p) {
        Err(_) => " !".to_string(),
        Ok(a) => {
            let mut s = String::new();
            ser(&a, &mut s);
            s
        }
    }
}

pub const PLANTS: [&str; 24] = [
    "^", "$", "\\b", "\\B", "\\A", "\\z", "(?i)", "(?i:a)", "(?s-m:b)", "a*?", "b+?", "c??", "a{1,2}?", "\\p{Greek}",
    "\\p{sc=Greek}", "\\pX", "[\\p{Greek}a]", "\\p{alphabetic}", "[a&&\\p{Script=Latin}]", "(?=a)", "(?!b)", "(?<=a)",
    "\\P{gc=L}", "(?x)",
];

/// A supported pattern with one unsupported construct planted at a random position/depth.
pub fn planted(r: &mut Rng) -> String {
    let re = regen::gen_pattern(r, &GenCfg { depth: 2, ..GenCfg::default() }, false);
    let text = re.render();
    let plant = *r.pick(&PLANTS);
    // positions where an atom can be inserted: before an atom start
    let cs: Vec<char> = text.chars().collect();
    let mut spots: Vec<usize> = vec![0, cs.len()];
    let mut depth_br = 0i32;
    for (i, c) in cs.iter().enumerate() {
        match c {
            '[' if i == 0 || cs[i - 1] != '\\' => depth_br += 1,
            ']' if i > 0 && cs[i - 1] != '\\' => depth_br -= 1,
            _ => {}
        }
        if depth_br == 0 && (*c == '(' || *c == '|') && (i == 0 || cs[i - 1] != '\\') {
            // after "(" / "(?:" / "|"
            let mut j = i + 1;
            if *c == '(' && j + 1 < cs.len() && cs[j] == '?' && cs[j + 1] == ':' {
                j += 2;
            }
            spots.push(j);
        }
    }
    let at = *r.pick(&spots);
    let wrapped = match r.below(4) {
        0 => format!("(?:{}){{0}}", plant),
        1 => format!("({})", plant),
        2 => format!("(?:x|{})*", plant),
        _ => plant.to_string(),
    };
    let mut out: String = cs[..at].iter().collect();
    out.push_str(&wrapped);
    out.extend(cs[at..].iter());
    out
}

const META: [&str; 30] = [
    "a", "b", "(", ")", "[", "]", "{", "}", "*", "+", "?", "|", "\\", ".", "^", "$", "-", ",", "1", "2", ":", "=", "!",
    "<", "p", "P", "d", "w", "&&", "~~",
];

/// Token-level random string over the regex meta-alphabet (repetition counts stay small).
pub fn meta_string(r: &mut Rng) -> String {
    let n = r.range(1, 10);
    (0..n).map(|_| *r.pick(&META)).collect()
}
