"""The per-property check procedure (generic over the property's configuration in props.json)."""
import json
import os
import sys
import time

import checklib as C


def violation(pid, path, no_input=False):
    tail = " no-failing-input-found" if no_input else ""
    print(f"VIOLATION property={pid} replay={path}{tail}")
    sys.stdout.flush()


def match_known(pid, text):
    import re
    for k in C.known_findings():
        if k["property"] == pid and re.search(k["key"], text):
            return k
    return None


def run(pid, pc, tier, seed, replay):
    t0 = time.time()
    violations = 0
    known_lines = []
    notes = []
    assumptions = list(pc.get("assumptions", []))
    coverage = {
        "checker_cmd": f"cd /verif/lean && lake build {pc['lean_module']} scnr_model && lake env lean work/{pid}/Audit.lean  (#print axioms of every listed theorem); then bin/check {pid} {tier}",
        "trusted_base": C.TRUSTED_BASE + pc.get("trusted_extra", []),
    }

    # ---- 1. harness build against /repo's working tree
    ok, log, dt = C.build_harness()
    coverage["harness_build_s"] = round(dt, 1)
    if not ok:
        path = C.write_replay(pid, "build", {
            "what": "the Rust harness no longer compiles against /repo (feature verif_hooks); the correspondence "
                    "between the Lean model and the code cannot be established",
            "cargo_log_tail": log[-6000:]})
        coverage.update({"obligations": 1, "discharged": 0, "samples": ["harness build failed"]})
        C.write_evidence(pid, tier, seed, coverage, time.time() - t0, 1, assumptions)
        violation(pid, path, no_input=True)
        return 1

    # ---- 2. Lean: theorems of the property + axiom audit
    theorems = pc.get("theorems", [])
    ok, log, dt = C.build_lean([pc["lean_module"], "scnr_model"])
    coverage["lean_build_s"] = round(dt, 1)
    obligations = len(theorems)
    discharged = 0
    proof_failures = []
    if not ok:
        proof_failures.append({"what": "lake build failed", "log_tail": log[-6000:]})
    else:
        forb = C.grep_forbidden()
        if forb:
            proof_failures.append({"what": "forbidden constructs in Lean sources", "hits": forb})
        results, alog = C.audit_axioms(pid, pc["lean_module"], theorems)
        for t in theorems:
            ax = results.get(t)
            if ax is None:
                proof_failures.append({"what": f"theorem {t} missing or does not check", "log_tail": alog[-3000:]})
            elif not set(ax) <= C.ALLOWED_AXIOMS:
                proof_failures.append({"what": f"theorem {t} depends on axioms {ax}"})
            elif not forb:
                discharged += 1
        coverage["axioms"] = {t: results.get(t) for t in theorems}
    coverage["theorems"] = theorems

    # ---- 3. correspondence (and spec verdicts on the real outputs)
    n = pc["n"][tier]
    only_ok = pc["suite"] not in ("C14", "C17")
    runs = []
    if replay:
        rp = C.load_json(replay)
        rseed = int(rp.get("seed", seed))
        extra = None
        rn = n
        if only_ok and rp.get("case") is not None and str(rp.get("case")).isdigit():
            extra = ["--only", str(rp["case"])]
            rn = int(rp["case"]) + 1
        runs.append(C.run_suite(pid, pc["suite"], rseed, rn, tag="replay", extra=extra))
        seed = rseed
    else:
        # corpus first: pinned (seed, case) pairs of past failures and of seeded changes
        corpus = C.load_json(os.path.join(C.VERIF, "corpus", f"{pid}.json")) if os.path.exists(
            os.path.join(C.VERIF, "corpus", f"{pid}.json")) else []
        by_seed = {}
        for e in corpus:
            by_seed.setdefault(int(e["seed"]), set()).add(int(e["case"]))
        if only_ok:
            for k, (cs, cases) in enumerate(sorted(by_seed.items())):
                runs.append(C.run_suite(pid, pc["suite"], cs, max(cases) + 1, tag=f"corpus{k}",
                                        extra=["--only", ",".join(str(c) for c in sorted(cases))]))
        coverage["corpus_cases_replayed"] = sum(len(v) for v in by_seed.values()) if only_ok else 0
        runs.append(C.run_suite(pid, pc["suite"], seed, n, extra=pc.get("harness_args", {}).get(tier)))
    corr_obligations = 1
    corr_ok = True
    for r_ in runs:
        if "error" in r_:
            corr_ok = False
            path = C.write_replay(pid, "infra", {"what": r_["error"], "log": r_.get("log", "")})
            coverage.update({"obligations": obligations + corr_obligations, "discharged": discharged,
                             "samples": [r_["error"]]})
            C.write_evidence(pid, tier, seed, coverage, time.time() - t0, 1, assumptions)
            violation(pid, path, no_input=True)
            return 1
    res = runs[-1]
    # merge the corpus runs into the main result (their seeds are recorded per failure)
    for r_ in runs[:-1]:
        for k in ("compared", "spec_ok", "inconclusive", "pairs_total", "distinct", "decided_by_theorem", "inconclusive_undecided"):
            res[k] = res.get(k, 0) + r_.get(k, 0)
        for m in r_["mismatches"]:
            m["_run"] = r_
        for m in r_["spec_fail"]:
            m["_run"] = r_
        res["mismatches"] = r_["mismatches"] + res["mismatches"]
        res["spec_fail"] = r_["spec_fail"] + res["spec_fail"]

    stats = res["stats"]
    coverage.update({
        "programs": stats.get("cases", 0) - stats.get("build_err", 0),
        "inputs": stats.get("inputs", 0),
        "evaluations": res["compared"],
        "distinct_nontrivial": res["distinct"],
        "rule": pc.get("rule", "one evaluation = one operation whose observable result of the real crate was compared with the Lean model; distinct = distinct (operation, result) pairs"),
        "op_histogram": stats.get("ops", {}),
        "counters": stats.get("counters", {}),
        "build_errors": stats.get("build_err", 0),
        "build_panics": stats.get("build_panic", 0),
        "class_tables_enumerated_exhaustively": stats.get("class_tables_enumerated", 0),
        "spec_verdicts_ok": res["spec_ok"],
        "inconclusive": res["inconclusive"],
        "decided_by_model_theorem": res.get("decided_by_theorem", 0),
        "inconclusive_and_not_decided_by_model_theorem": res.get("inconclusive_undecided", 0),
        "notes_count": len(res.get("notes", [])),
        "notes_sample": sorted(set(res.get("notes", [])))[:5],
        "state_pairs_checked_by_closedCheck": res["pairs_total"],
        "model_vs_impl_disagreements": len(res["mismatches"]),
        "impl_vs_spec_failures": len(res["spec_fail"]),
        "samples": stats.get("samples", [])[:3] or ["(no sample)"],
    })

    # implementation vs specification failures: genuine failing inputs of the property
    reported = set()
    for sf in res["spec_fail"]:
        text = json.dumps({k: v for k, v in sf.items() if k != "_run"}, ensure_ascii=False)
        k = match_known(pid, text)
        if k:
            line = f"KNOWN-FINDING: property={pid} {k['text']}"
            if line not in known_lines:
                known_lines.append(line)
            continue
        if sf["case"] in reported:
            continue
        reported.add(sf["case"])
        path = C.write_replay(pid, "spec", {
            "what": "the real crate's result violates the executable Lean specification of the property",
            "seed": sf.get("_run", res)["stats"].get("seed", seed), "suite": pc["suite"], "case": sf["case"],
            "operation": sf["op"], "real": sf["real"],
            "spec_verdict": sf["spec"], "case_lines": C.case_lines(sf.get("_run", res), sf["case"]),
            "rerun": f"bin/check {pid} {tier} --replay <this file>"})
        violations += 1
        violation(pid, path)
        if violations >= 3:
            break

    # model vs implementation disagreements: the tie is broken
    if res["mismatches"] and violations == 0:
        corr_ok = False
        mm = res["mismatches"][0]
        # directed search: more seeds, looking for a spec failure on the implementation
        found = None
        for extra_seed in range(seed + 1, seed + 1 + pc.get("search_seeds", 3)):
            r2 = C.run_suite(pid, pc["suite"], extra_seed, n, tag="search")
            if "error" in r2:
                break
            for sf in r2["spec_fail"]:
                if not match_known(pid, json.dumps({k: v for k, v in sf.items() if k != "_run"}, ensure_ascii=False)):
                    found = (extra_seed, sf, r2)
                    break
            if found:
                break
        if found:
            s2, sf, r2 = found
            path = C.write_replay(pid, "spec", {
                "what": "correspondence broken; directed search found an input on which the real crate violates the specification",
                "seed": s2, "suite": pc["suite"], "case": sf["case"], "operation": sf["op"], "real": sf["real"],
                "spec_verdict": sf["spec"], "case_lines": C.case_lines(r2, sf["case"])})
            violations += 1
            violation(pid, path)
        else:
            path = C.write_replay(pid, "corr", {
                "what": "the correspondence between the Lean model and the real crate no longer checks; "
                        "no input violating the property's specification was found",
                "broken": f"correspondence {pc['suite']} (model {pc['lean_module']})",
                "seed": mm.get("_run", res)["stats"].get("seed", seed), "suite": pc["suite"], "case": mm["case"],
                "operation": mm["op"], "real": mm["real"], "model": mm["model"],
                "disagreements": len(res["mismatches"]),
                "case_lines": C.case_lines(mm.get("_run", res), mm["case"]),
                "rerun": f"bin/check {pid} {tier} --replay <this file>"})
            violations += 1
            violation(pid, path, no_input=True)
    elif res["mismatches"]:
        corr_ok = False

    if proof_failures and violations == 0:
        path = C.write_replay(pid, "proof", {
            "what": "a proof obligation of the property no longer checks",
            "failures": proof_failures})
        violations += 1
        violation(pid, path, no_input=True)

    coverage["obligations"] = obligations + corr_obligations
    coverage["discharged"] = discharged + (1 if corr_ok else 0)
    coverage["proof_failures"] = proof_failures
    coverage["known_findings_hit"] = known_lines
    for line in known_lines:
        print(line)
    C.write_evidence(pid, tier, seed, coverage, time.time() - t0, violations, assumptions)
    if violations == 0:
        print(f"OK property={pid} tier={tier} seed={seed} theorems={discharged}/{obligations} "
              f"compared={res['compared']} spec_ok={res['spec_ok']} wall={time.time() - t0:.1f}s")
    return 1 if violations else 0
