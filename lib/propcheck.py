"""The per-property check procedure (generic over the property's configuration in props.json)."""
import json
import os
import sys
import time

import checklib as C


def violation(pid, path, no_input=False):
    tail = " no-failing-input-found" if no_input else ""
    print(f"VIOLATION property={pid} replay={path}{tail}")
    sys.stdout.flush()


def match_known(pid, text):
    import re
    for k in C.known_findings():
        if k["property"] == pid and re.search(k["key"], text):
            return k
    return None


def run(pid, pc, tier, seed, replay):
    t0 = time.time()
    violations = 0
    known_lines = []
    notes = []
    assumptions = list(pc.get("assumptions", []))
    coverage = {
        "checker_cmd": f"cd /verif/lean && lake build {pc['lean_module']} scnr_model && lake env lean work/{pid}/Audit.lean  (#print axioms of every listed theorem); then bin/check {pid} {tier}",
        "trusted_base": C.TRUSTED_BASE + pc.get("trusted_extra", []),
    }

    # ---- 1. harness build against /repo's working tree
    ok, log, dt = C.build_harness()
    coverage["harness_build_s"] = round(dt, 1)
    if not ok:
        path = C.write_replay(pid, "build", {
            "what": "the Rust harness no longer compiles against /repo (feature verif_hooks); the correspondence "
                    "between the Lean model and the code cannot be established",
            "cargo_log_tail": log[-6000:]})
        coverage.update({"obligations": 1, "discharged": 0, "samples": ["harness build failed"]})
        C.write_evidence(pid, tier, seed, coverage, time.time() - t0, 1, assumptions)
        violation(pid, path, no_input=True)
        return 1

    # ---- 2. Lean: theorems of the property + axiom audit
    theorems = pc.get("theorems", [])
    ok, log, dt = C.build_lean([pc["lean_module"], "scnr_model"])
    coverage["lean_build_s"] = round(dt, 1)
    obligations = len(theorems)
    discharged = 0
    proof_failures = []
    if not ok:
        proof_failures.append({"what": "lake build failed", "log_tail": log[-6000:]})
    else:
        forb = C.grep_forbidden()
        if forb:
            proof_failures.append({"what": "forbidden constructs in Lean sources", "hits": forb})
        results, alog = C.audit_axioms(pid, pc["lean_module"], theorems)
        for t in theorems:
            ax = results.get(t)
            if ax is None:
                proof_failures.append({"what": f"theorem {t} missing or does not check", "log_tail": alog[-3000:]})
            elif not set(ax) <= C.ALLOWED_AXIOMS:
                proof_failures.append({"what": f"theorem {t} depends on axioms {ax}"})
            elif not forb:
                discharged += 1
        coverage["axioms"] = {t: results.get(t) for t in theorems}
    coverage["theorems"] = theorems

    # ---- 3. correspondence (and spec verdicts on the real outputs)
    n = pc["n"][tier]
    res = C.run_suite(pid, pc["suite"], seed, n, extra=pc.get("harness_args", {}).get(tier))
    corr_obligations = 1
    corr_ok = True
    if "error" in res:
        corr_ok = False
        path = C.write_replay(pid, "infra", {"what": res["error"], "log": res.get("log", "")})
        coverage.update({"obligations": obligations + corr_obligations, "discharged": discharged,
                         "samples": [res["error"]]})
        C.write_evidence(pid, tier, seed, coverage, time.time() - t0, 1, assumptions)
        violation(pid, path, no_input=True)
        return 1

    stats = res["stats"]
    coverage.update({
        "programs": stats.get("cases", 0) - stats.get("build_err", 0),
        "inputs": stats.get("inputs", 0),
        "evaluations": res["compared"],
        "distinct_nontrivial": res["distinct"],
        "rule": pc.get("rule", "one evaluation = one operation whose observable result of the real crate was compared with the Lean model; distinct = distinct (operation, result) pairs"),
        "op_histogram": stats.get("ops", {}),
        "counters": stats.get("counters", {}),
        "build_errors": stats.get("build_err", 0),
        "build_panics": stats.get("build_panic", 0),
        "class_tables_enumerated_exhaustively": stats.get("class_tables_enumerated", 0),
        "spec_verdicts_ok": res["spec_ok"],
        "inconclusive": res["inconclusive"],
        "state_pairs_checked_by_closedCheck": res["pairs_total"],
        "model_vs_impl_disagreements": len(res["mismatches"]),
        "impl_vs_spec_failures": len(res["spec_fail"]),
        "samples": stats.get("samples", [])[:3] or ["(no sample)"],
    })

    # implementation vs specification failures: genuine failing inputs of the property
    reported = set()
    for sf in res["spec_fail"]:
        text = json.dumps(sf, ensure_ascii=False)
        k = match_known(pid, text)
        if k:
            line = f"KNOWN-FINDING: property={pid} {k['text']}"
            if line not in known_lines:
                known_lines.append(line)
            continue
        if sf["case"] in reported:
            continue
        reported.add(sf["case"])
        path = C.write_replay(pid, "spec", {
            "what": "the real crate's result violates the executable Lean specification of the property",
            "seed": seed, "suite": pc["suite"], "case": sf["case"], "operation": sf["op"], "real": sf["real"],
            "spec_verdict": sf["spec"], "case_lines": C.case_lines(res, sf["case"]),
            "rerun": f"VERIF_SEED={seed} bin/check {pid} {tier}"})
        violations += 1
        violation(pid, path)
        if violations >= 3:
            break

    # model vs implementation disagreements: the tie is broken
    if res["mismatches"] and violations == 0:
        corr_ok = False
        mm = res["mismatches"][0]
        # directed search: more seeds, looking for a spec failure on the implementation
        found = None
        for extra_seed in range(seed + 1, seed + 1 + pc.get("search_seeds", 3)):
            r2 = C.run_suite(pid, pc["suite"], extra_seed, n, tag="search")
            if "error" in r2:
                break
            for sf in r2["spec_fail"]:
                if not match_known(pid, json.dumps(sf, ensure_ascii=False)):
                    found = (extra_seed, sf, r2)
                    break
            if found:
                break
        if found:
            s2, sf, r2 = found
            path = C.write_replay(pid, "spec", {
                "what": "correspondence broken; directed search found an input on which the real crate violates the specification",
                "seed": s2, "suite": pc["suite"], "case": sf["case"], "operation": sf["op"], "real": sf["real"],
                "spec_verdict": sf["spec"], "case_lines": C.case_lines(r2, sf["case"])})
            violations += 1
            violation(pid, path)
        else:
            path = C.write_replay(pid, "corr", {
                "what": "the correspondence between the Lean model and the real crate no longer checks; "
                        "no input violating the property's specification was found",
                "broken": f"correspondence {pc['suite']} (model {pc['lean_module']})",
                "seed": seed, "suite": pc["suite"], "case": mm["case"], "operation": mm["op"],
                "real": mm["real"], "model": mm["model"],
                "disagreements": len(res["mismatches"]),
                "case_lines": C.case_lines(res, mm["case"]),
                "rerun": f"VERIF_SEED={seed} bin/check {pid} {tier}"})
            violations += 1
            violation(pid, path, no_input=True)
    elif res["mismatches"]:
        corr_ok = False

    if proof_failures and violations == 0:
        path = C.write_replay(pid, "proof", {
            "what": "a proof obligation of the property no longer checks",
            "failures": proof_failures})
        violations += 1
        violation(pid, path, no_input=True)

    coverage["obligations"] = obligations + corr_obligations
    coverage["discharged"] = discharged + (1 if corr_ok else 0)
    coverage["proof_failures"] = proof_failures
    coverage["known_findings_hit"] = known_lines
    for line in known_lines:
        print(line)
    C.write_evidence(pid, tier, seed, coverage, time.time() - t0, violations, assumptions)
    if violations == 0:
        print(f"OK property={pid} tier={tier} seed={seed} theorems={discharged}/{obligations} "
              f"compared={res['compared']} spec_ok={res['spec_ok']} wall={time.time() - t0:.1f}s")
    return 1 if violations else 0
