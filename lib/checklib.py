"""Shared machinery of bin/check (see DESIGN.md section 6)."""
import hashlib
import json
import os
import re
import shutil
import subprocess
import sys
import time

VERIF = os.path.dirname(os.path.dirname(os.path.abspath(__file__)))
LEAN = os.path.join(VERIF, "lean")
HARNESS = os.path.join(VERIF, "harness")
WORK = os.path.join(VERIF, "work")
EVID = os.path.join(VERIF, "evidence")
REPLAYS = os.path.join(EVID, "replays")
MODEL_EXE = os.path.join(LEAN, ".lake", "build", "bin", "scnr_model")
HARNESS_EXE = os.path.join(HARNESS, "target", "release", "harness")
ALLOWED_AXIOMS = {"propext", "Classical.choice", "Quot.sound"}

TRUSTED_BASE = [
    "Lean 4.33.0 kernel; axioms allowed in property theorems: propext, Classical.choice, Quot.sound (audited with #print axioms on every run)",
    "no sorry/admit/axiom/native_decide/bv_decide/implemented_by/unsafe in /verif/lean (grep on every run)",
    "model outputs are computed by compiled Lean (lean_exe scnr_model): Lean compiler and runtime trusted",
    "hand-written Lean model tied to the Rust code by differential testing through the harness (generators, line protocol, canonicalisation); reach bounded by the generators",
    "hook accessors of cargo feature verif_hooks (read-only dump, class match function, find_from at a position, minimizer log)",
    "modelled not verified: regex-syntax parser/AST meaning, Unicode data (seshat/core), serde/serde_json, dot-writer, rustc-hash iteration order, Rust std contracts (CharIndices, binary_search, BTreeMap order, Vec::insert, RwLock), OS/filesystem, memory model, resource limits",
]

ENV = dict(os.environ)
ENV["CARGO_NET_OFFLINE"] = "true"


def sh(cmd, cwd=None, timeout=None, stdin=None):
    t0 = time.time()
    p = subprocess.run(cmd, cwd=cwd, env=ENV, stdout=subprocess.PIPE, stderr=subprocess.STDOUT,
                       stdin=stdin, timeout=timeout, shell=isinstance(cmd, str))
    return p.returncode, p.stdout.decode("utf-8", "replace"), time.time() - t0


# --------------------------------------------------------------------------------------------
# configuration per property

def load_json(path):
    with open(path) as f:
        return json.load(f)


def props_cfg():
    return load_json(os.path.join(VERIF, "lib", "props.json"))


def known_findings():
    """Lines `finding: property=Cnn key=<regex on the failure text> -- description`."""
    out = []
    path = os.path.join(VERIF, "known_findings.txt")
    if not os.path.exists(path):
        return out
    for line in open(path):
        line = line.strip()
        m = re.match(r"finding:\s+property=(C\d+)\s+key=(\S+)\s+--\s+(.*)", line)
        if m:
            out.append({"property": m.group(1), "key": m.group(2), "text": m.group(3)})
    return out


# --------------------------------------------------------------------------------------------
# builds

def build_harness():
    rc, out, dt = sh(["cargo", "build", "--release", "--offline"], cwd=HARNESS, timeout=1800)
    return rc == 0, out, dt


def build_lean(targets):
    rc, out, dt = sh(["lake", "build"] + targets, cwd=LEAN, timeout=3600)
    return rc == 0, out, dt


FORBIDDEN = re.compile(r"\b(sorry|admit|native_decide|bv_decide|implemented_by)\b|^\s*axiom\s|^\s*unsafe\s|maxHeartbeats\s+0")


def strip_comments(src):
    # remove block comments (nested) and line comments
    out = []
    depth = 0
    i = 0
    n = len(src)
    while i < n:
        if src.startswith("/-", i):
            depth += 1
            i += 2
        elif src.startswith("-/", i) and depth > 0:
            depth -= 1
            i += 2
        elif depth > 0:
            if src[i] == "\n":
                out.append("\n")
            i += 1
        elif src.startswith("--", i):
            while i < n and src[i] != "\n":
                i += 1
        else:
            out.append(src[i])
            i += 1
    return "".join(out)


def grep_forbidden():
    hits = []
    for root, _, files in os.walk(LEAN):
        if ".lake" in root:
            continue
        for fn in files:
            if not fn.endswith(".lean"):
                continue
            p = os.path.join(root, fn)
            src = strip_comments(open(p).read())
            for ln, line in enumerate(src.split("\n"), 1):
                if FORBIDDEN.search(line):
                    hits.append(f"{os.path.relpath(p, VERIF)}:{ln}: {line.strip()}")
    return hits


def audit_axioms(pid, module, theorems):
    """Returns (results, log): results[name] = list of axioms or None if the theorem is missing."""
    os.makedirs(os.path.join(WORK, pid), exist_ok=True)
    path = os.path.join(WORK, pid, "Audit.lean")
    with open(path, "w") as f:
        f.write(f"import {module}\n")
        for t in theorems:
            f.write(f"#print axioms {t}\n")
    rc, out, dt = sh(["lake", "env", "lean", path], cwd=LEAN, timeout=1800)
    results = {}
    flat = out.replace("\n", " ")
    for t in theorems:
        m = re.search(r"'" + re.escape(t) + r"' depends on axioms: \[([^\]]*)\]", flat)
        if m:
            results[t] = [a.strip() for a in m.group(1).split(",") if a.strip()]
        elif re.search(r"'" + re.escape(t) + r"' does not depend on any axioms", flat):
            results[t] = []
        else:
            results[t] = None
    return results, out


# --------------------------------------------------------------------------------------------
# correspondence runs

def run_suite(pid, suite, seed, n, tag="main", extra=None):
    """Runs the harness (real crate) and the Lean driver on the same op file; returns a dict."""
    d = os.path.join(WORK, pid, tag)
    shutil.rmtree(d, ignore_errors=True)
    os.makedirs(d)
    cmd = [HARNESS_EXE, suite, "--seed", str(seed), "--n", str(n), "--out", d]
    if extra:
        cmd += extra
    rc, out, dt_h = sh(cmd, timeout=7200)
    if rc != 0:
        what = "harness failed"
        if rc < 0 or rc >= 128:
            what = f"the harness process running the real crate crashed (exit status {rc}: signal / abort) - memory corruption or an abort inside the crate"
        return {"error": what, "log": out[-4000:], "dir": d}
    rc, log = run_model_parallel(d)
    if rc != 0:
        return {"error": "lean driver failed", "log": log[-4000:], "dir": d}
    res = compare(d)
    res["dir"] = d
    res["stats"] = load_json(os.path.join(d, "stats.json"))
    res["wall_harness_s"] = dt_h
    return res


def run_model_parallel(d, jobs=16):
    """Splits ops.in at `case` boundaries into chunks (every case is self-contained), runs one Lean
    driver process per chunk concurrently and concatenates the outputs in order."""
    lines = open(os.path.join(d, "ops.in"), encoding="utf-8").read().split("\n")
    starts = [i for i, l in enumerate(lines) if l.startswith("case ")]
    if not starts:
        starts = [0]
    starts[0] = 0
    # balance by size: greedy cut points
    total = len(lines)
    target = max(1, total // jobs)
    cuts = [0]
    for s_ in starts[1:]:
        if s_ - cuts[-1] >= target and len(cuts) < jobs:
            cuts.append(s_)
    cuts.append(total)
    procs = []
    for k in range(len(cuts) - 1):
        ip = os.path.join(d, f"chunk{k}.in")
        op = os.path.join(d, f"chunk{k}.out")
        with open(ip, "w", encoding="utf-8") as f:
            f.write("\n".join(lines[cuts[k]:cuts[k + 1]]) + "\n")
        procs.append((subprocess.Popen([MODEL_EXE], stdin=open(ip, "rb"), stdout=open(op, "wb"),
                                       stderr=subprocess.STDOUT), ip, op))
    rc = 0
    log = ""
    with open(os.path.join(d, "model.out"), "wb") as out:
        for p, ip, op in procs:
            try:
                r = p.wait(timeout=int(os.environ.get("VERIF_MODEL_TIMEOUT", "1800")))
            except subprocess.TimeoutExpired:
                p.kill()
                r = 124
            data = open(op, "rb").read()
            if r != 0:
                rc = r
                log += data.decode("utf-8", "replace")[-2000:]
            out.write(data)
            os.remove(ip)
            os.remove(op)
    return rc, log


def compare(d):
    """Pairs every `expect` line of ops.in with the model output line; collects mismatches and
    spec verdicts (`S ...` lines)."""
    ops = open(os.path.join(d, "ops.in"), encoding="utf-8").read().split("\n")
    model = open(os.path.join(d, "model.out"), encoding="utf-8").read().split("\n")
    if model and model[-1] == "":
        model.pop()
    mi = 0
    case = None
    case_start = {}
    last_op = None
    last_op_idx = None
    mismatches = []
    spec_fail = []
    compared = 0
    spec_ok = 0
    inconclusive = 0
    inconclusive_keys = set()
    ordinal = {}

    def op_key():
        parts = str(last_op).split()
        if parts and parts[0] in ("equivdfa", "minimize"):
            return (case, ("pair", ordinal.get((case, parts[0]), 0)))
        return (case, tuple(parts[1:]))
    decided_keys = set()
    notes = []
    pairs_total = 0
    distinct = set()
    for i, line in enumerate(ops):
        if line.startswith("case "):
            case = line.split()[1]
            case_start[case] = i
        if line.startswith("expect "):
            exp = line[7:].rstrip()
            # model lines: first the plain output, then any spec verdict lines
            got = model[mi].rstrip() if mi < len(model) else "<missing>"
            mi += 1
            compared += 1
            distinct.add(hashlib.md5((str(last_op) + "|" + exp).encode()).hexdigest())
            if got != exp:
                mismatches.append({"case": case, "op": last_op, "op_line": last_op_idx, "real": exp, "model": got})
            while mi < len(model) and model[mi].startswith("S "):
                v = model[mi]
                mi += 1
                if v.startswith("S ok"):
                    spec_ok += 1
                    if v.startswith("S ok trackA decides"):
                        decided_keys.add(op_key())
                    m_ = re.search(r"pairs=(\d+)", v)
                    if m_:
                        pairs_total += int(m_.group(1))
                elif v.startswith("S inconclusive"):
                    inconclusive += 1
                    inconclusive_keys.add(op_key())
                elif v.startswith("S note"):
                    notes.append(v[7:])
                else:
                    spec_fail.append({"case": case, "op": last_op, "op_line": last_op_idx, "real": exp, "spec": v})
        elif line and not line.startswith("#"):
            last_op = line
            last_op_idx = i
            # minimizer pairs have no arguments: number them within the case
            w0 = line.split()[0]
            if w0 in ("equivdfa", "minimize"):
                ordinal[(case, w0)] = ordinal.get((case, w0), 0) + 1
    if mi != len(model):
        mismatches.append({"case": case, "op": "<end>", "op_line": len(ops), "real": "<end of expectations>",
                           "model": f"{len(model) - mi} extra model lines, first: {model[mi] if mi < len(model) else ''}"})
    return {"compared": compared, "mismatches": mismatches, "spec_fail": spec_fail, "spec_ok": spec_ok, "inconclusive": inconclusive, "pairs_total": pairs_total, "notes": notes,
            "decided_by_theorem": len(decided_keys), "inconclusive_undecided": len(inconclusive_keys - decided_keys),
            "distinct": len(distinct), "case_start": case_start, "ops": ops}


def case_lines(res, case):
    ops = res["ops"]
    start = res["case_start"].get(case, 0)
    out = []
    for j in range(start, len(ops)):
        if j > start and ops[j].startswith("case "):
            break
        out.append(ops[j])
    return out


def write_replay(pid, kind, payload):
    os.makedirs(REPLAYS, exist_ok=True)
    h = hashlib.md5(json.dumps(payload, sort_keys=True).encode()).hexdigest()[:10]
    path = os.path.join(REPLAYS, f"{pid}-{kind}-{h}.json")
    with open(path, "w") as f:
        json.dump(payload, f, indent=1, ensure_ascii=False)
    return path


# --------------------------------------------------------------------------------------------
# evidence

def write_evidence(pid, tier, seed, coverage, wall, violations, assumptions):
    os.makedirs(EVID, exist_ok=True)
    ev = {
        "property_id": pid,
        "tier": tier,
        "seed": seed,
        "level": "proof",
        "coverage": coverage,
        "assumptions": assumptions,
        "wall_s": round(wall, 2),
        "violations": violations,
    }
    with open(os.path.join(EVID, f"{pid}.json"), "w") as f:
        json.dump(ev, f, indent=1, ensure_ascii=False)


# --------------------------------------------------------------------------------------------
# main

def main(argv):
    if not argv:
        print(__doc__)
        return 2
    pid = argv[0]
    tier = os.environ.get("VERIF_TIER", "quick")
    replay = None
    i = 1
    while i < len(argv):
        if argv[i] in ("quick", "thorough"):
            tier = argv[i]
        elif argv[i] == "--replay":
            replay = argv[i + 1]
            i += 1
        i += 1
    cfg = props_cfg()
    if pid not in cfg:
        print(f"unknown property {pid}")
        return 2
    pc = cfg[pid]
    seed = int(os.environ.get("VERIF_SEED", pc.get("seed", {}).get(tier, 20260929 if tier == "quick" else 77001)))
    import propcheck
    return propcheck.run(pid, pc, tier, seed, replay)
